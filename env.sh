# sourced by every /verif script: offline Go toolchain that can build /repo (go 1.24) and the engine
export PATH=/root/go/pkg/mod/golang.org/toolchain@v0.0.1-go1.24.0.linux-amd64/bin:$PATH
export GOTOOLCHAIN=local GOSUMDB=off GOPROXY=off GOFLAGS=-mod=mod
