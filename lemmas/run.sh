#!/bin/sh
# Regenerates and discharges the induction VCs of the prefix-sum axioms (see gen.py). Exit 0 iff every file is unsat on some solver.
cd "$(dirname "$0")"
python3 gen.py >/dev/null || exit 2
bad=0; n=0
for f in *.smt2; do
  n=$((n+1))
  case "$f" in be*) r=$(timeout 120 cvc5 "$f" 2>/dev/null | head -1);; *) r=$(timeout 60 z3-new "$f" 2>/dev/null | head -1);; esac
  [ "$r" = unsat ] || r=$(timeout 60 z3 "$f" 2>/dev/null | head -1)
  [ "$r" = unsat ] || r=$(timeout 60 cvc5 "$f" 2>/dev/null | head -1)
  if [ "$r" != unsat ]; then echo "NOT PROVED: $f ($r)"; bad=$((bad+1)); fi
done
echo "prefix-sum lemmas: $((n-bad))/$n proved"
[ $bad -eq 0 ]
