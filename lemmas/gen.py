#!/usr/bin/env python3
# Generates the induction VCs (base and step) for the prefix-sum axioms that govc assumes (engine/speceval.go needPsumG / needPsum and the
# ground "sumFacts" emitted for append, copy, slicing, slices.Insert and slices.Delete). The prefix sum is DEFINED by
#   D1: n <= 0  ==> psum(E,a,n) = 0
#   D2: n >= 0  ==> psum(E,a,n+1) = psum(E,a,n) + nn(E[a[n]])         (nn(x) = max(x,0))
# and every axiom used by the engine is proved from D1, D2 by induction on a natural number; each file must be `unsat`.
# The version for an uninterpreted non-negative measure (psum_f with uf_f >= 0, e.g. bs >= 1) is the instance E = uf_f.
import os
D = os.path.dirname(os.path.abspath(__file__))
PRE = """(set-logic ALL)
(declare-fun psum ((Array Int Int) (Array Int Int) Int) Int)
(define-fun nn ((x Int)) Int (ite (< x 0) 0 x))
(assert (forall ((E (Array Int Int)) (a (Array Int Int)) (n Int)) (! (=> (<= n 0) (= (psum E a n) 0)) :pattern ((psum E a n)))))
(assert (forall ((E (Array Int Int)) (a (Array Int Int)) (n Int)) (! (=> (>= n 0) (= (psum E a (+ n 1)) (+ (psum E a n) (nn (select E (select a n)))))) :pattern ((psum E a (+ n 1))) :pattern ((psum E a n)))))
(declare-const E (Array Int Int))
(declare-const F (Array Int Int))
(declare-const a (Array Int Int))
(declare-const b (Array Int Int))
(declare-const n Int)
(declare-const i Int)
(declare-const k Int)
(declare-const v Int)
(declare-const p Int)
(declare-const q Int)
(declare-const m Int)
"""
lemmas = {}
def lemma(name, hyp, stmt, var='n', lo='0'):
    """stmt(x): the statement at induction value x (a string with {x}); hyp: assumptions independent of the induction variable.
    Proves: forall x >= lo. stmt(x)   (for x < lo the statements used are covered by D1 or stated with x >= lo)."""
    base = PRE + hyp + "(assert (= %s %s))\n(assert (not %s))\n(check-sat)\n" % (var, lo, stmt.format(x=var))
    step = PRE + hyp + "(assert (>= %s %s))\n(assert %s)\n(assert (not %s))\n(check-sat)\n" % (var, lo, stmt.format(x=var), stmt.format(x="(+ %s 1)" % var))
    lemmas[name + ".base"] = base
    lemmas[name + ".step"] = step
def direct(name, body):
    lemmas[name] = PRE + body + "(check-sat)\n"

# A3 monotone: 0 <= i <= j ==> psum(i) <= psum(j); induction on j from i
lemma("mono", "(assert (<= 0 i))\n", "(<= (psum E a i) (psum E a {x}))", var='n', lo='i')
# non-negative
lemma("nonneg", "", "(>= (psum E a {x}) 0)")
# A4 store: psum(E, store(a,k,v), n) = psum(E,a,n) + (0<=k<n ? nn E[v] - nn E[a[k]] : 0); n <= 0 by D1
lemma("store", "", "(= (psum E (store a k v) {x}) (+ (psum E a {x}) (ite (and (<= 0 k) (< k {x})) (- (nn (select E v)) (nn (select E (select a k)))) 0)))")
direct("store.neg", "(assert (<= n 0))\n(assert (not (= (psum E (store a k v) n) (+ (psum E a n) (ite (and (<= 0 k) (< k n)) (- (nn (select E v)) (nn (select E (select a k)))) 0)))))\n")
# A5 frame: measures agreeing on the first n elements of a
AGREE = "(assert (forall ((d Int)) (! (=> (and (<= 0 d) (< d m)) (= (select E (select a d)) (select F (select a d)))) :pattern ((select a d)))))\n"
lemma("frame", AGREE, "(=> (<= {x} m) (= (psum E a {x}) (psum F a {x})))")
# A6 frame except position k (k < m): psum E a n - [k<n] nn E[a[k]] = psum F a n - [k<n] nn F[a[k]]
AGREEX = "(assert (forall ((d Int)) (! (=> (and (<= 0 d) (< d m) (not (= d k))) (= (select E (select a d)) (select F (select a d)))) :pattern ((select a d)))))\n(assert (<= 0 k))\n"
lemma("frame1", AGREEX, "(=> (<= {x} m) (= (- (psum E a {x}) (ite (< k {x}) (nn (select E (select a k))) 0)) (- (psum F a {x}) (ite (< k {x}) (nn (select F (select a k))) 0))))")
# extensionality on a prefix
EXT = "(assert (forall ((d Int)) (! (=> (and (<= 0 d) (< d m)) (= (select a d) (select b d))) :pattern ((select a d)) :pattern ((select b d)))))\n"
lemma("ext", EXT, "(=> (<= {x} m) (= (psum E a {x}) (psum E b {x})))")
# segment: b[p+d] = a[q+d] for 0 <= d < m, p,q >= 0  ==>  psum(b,p+x) - psum(b,p) = psum(a,q+x) - psum(a,q) for 0 <= x <= m
SEG = "(assert (forall ((d Int)) (! (=> (and (<= 0 d) (< d m)) (= (select b (+ p d)) (select a (+ q d)))) :pattern ((select b (+ p d))) :pattern ((select a (+ q d))))))\n(assert (and (<= 0 p) (<= 0 q)))\n"
# two ground instances of D2 (at p+n and q+n) and of the hypothesis (at d = n), spelled out because E-matching does not match modulo arithmetic
SEG += "(assert (=> (>= (+ p n) 0) (= (psum E b (+ (+ p n) 1)) (+ (psum E b (+ p n)) (nn (select E (select b (+ p n))))))))\n"
SEG += "(assert (=> (>= (+ q n) 0) (= (psum E a (+ (+ q n) 1)) (+ (psum E a (+ q n)) (nn (select E (select a (+ q n))))))))\n"
SEG += "(assert (=> (and (<= 0 n) (< n m)) (= (select b (+ p n)) (select a (+ q n)))))\n"
lemma("segment", SEG, "(=> (<= {x} m) (= (- (psum E b (+ p {x})) (psum E b p)) (- (psum E a (+ q {x})) (psum E a q))))")
# ---- corollaries: the ground facts the engine emits for slicing, append, copy (blit), slices.Insert and slices.Delete.
# Each is checked from INSTANCES of the lemmas proved above (ext, segment; D1/D2 are in the prelude), written out explicitly.
def seg_inst(b, a, p, q, m, x):
    return ("(assert (=> (and (forall ((d Int)) (=> (and (<= 0 d) (< d {m})) (= (select {b} (+ {p} d)) (select {a} (+ {q} d))))) (<= 0 {p}) (<= 0 {q}) (<= 0 {x}) (<= {x} {m})) "
            "(= (- (psum E {b} (+ {p} {x})) (psum E {b} {p})) (- (psum E {a} (+ {q} {x})) (psum E {a} {q})))))\n").format(b=b, a=a, p=p, q=q, m=m, x=x)
def ext_inst(a, b, m, x):
    return ("(assert (=> (and (forall ((d Int)) (=> (and (<= 0 d) (< d {m})) (= (select {a} d) (select {b} d)))) (<= 0 {x}) (<= {x} {m})) (= (psum E {a} {x}) (psum E {b} {x}))))\n").format(a=a, b=b, m=m, x=x)
DECL = "(declare-const c (Array Int Int))\n(declare-const lo Int)\n(declare-const hi Int)\n(declare-const ln Int)\n(declare-const j Int)\n(declare-const vn Int)\n(declare-const w Int)\n"
# slicing a[lo:hi]: sh[k] = a[k+lo]
direct("cor.shift", DECL + "(assert (forall ((d Int)) (= (select b d) (select a (+ d lo)))))\n(assert (and (<= 0 lo) (<= lo hi)))\n" + seg_inst("b", "a", "0", "lo", "(- hi lo)", "(- hi lo)") +
       "(assert (not (= (psum E b (- hi lo)) (- (psum E a hi) (psum E a lo)))))\n")
# slices.Delete(a, i, j) on length ln: del[k] = k < i ? a[k] : a[k + (j-i)]
DEL = DECL + "(assert (forall ((d Int)) (= (select b d) (ite (< d i) (select a d) (select a (+ d (- j i)))))))\n(assert (and (<= 0 i) (<= i j) (<= j ln)))\n"
direct("cor.delete1", DEL + ext_inst("b", "a", "i", "i") + "(assert (not (= (psum E b i) (psum E a i))))\n")
direct("cor.delete2", DEL + ext_inst("b", "a", "i", "i") + seg_inst("b", "a", "i", "j", "(- ln j)", "(- ln j)") +
       "(assert (not (= (psum E b (- ln (- j i))) (+ (psum E a i) (- (psum E a ln) (psum E a j))))))\n")
# slices.Insert(a, i, c[0:vn]...) on length ln: ins[k] = k < i ? a[k] : k < i+vn ? c[k-i] : a[k-vn]
INS = DECL + "(assert (forall ((d Int)) (= (select b d) (ite (< d i) (select a d) (ite (< d (+ i vn)) (select c (- d i)) (select a (- d vn)))))))\n(assert (and (<= 0 i) (<= i ln) (<= 0 vn)))\n"
direct("cor.insert1", INS + ext_inst("b", "a", "i", "i") + "(assert (not (= (psum E b i) (psum E a i))))\n")
direct("cor.insert2", INS + seg_inst("b", "c", "i", "0", "vn", "vn") + "(assert (not (= (psum E b (+ i vn)) (+ (psum E b i) (psum E c vn)))))\n")
direct("cor.insert3", INS + seg_inst("b", "a", "(+ i vn)", "i", "(- ln i)", "(- ln i)") +
       "(assert (not (= (psum E b (+ ln vn)) (+ (psum E b (+ i vn)) (- (psum E a ln) (psum E a i))))))\n")
# copy(dst[dOff:], src[sOff:sOff+n]): blit[k] = dOff <= k < dOff+n ? src[k-dOff+sOff] : base[k]      (p = dOff, q = sOff, m = n)
BLT = DECL + "(assert (forall ((d Int)) (= (select b d) (ite (and (<= p d) (< d (+ p m))) (select c (+ (- d p) q)) (select a d)))))\n"
direct("cor.blit1", BLT + ext_inst("b", "a", "p", "p") + "(assert (not (=> (>= p 0) (= (psum E b p) (psum E a p)))))\n")
direct("cor.blit2", BLT + seg_inst("b", "c", "p", "q", "m", "m") + "(assert (not (=> (and (>= p 0) (>= m 0) (>= q 0)) (= (psum E b (+ p m)) (+ (psum E b p) (- (psum E c (+ q m)) (psum E c q)))))))\n")
# append(a[0:ln], v, w): app = store(store(a, ln, v), ln+1, w)
APP = DECL + "(assert (<= 0 ln))\n"
direct("cor.append1", APP + ext_inst("(store a ln v)", "a", "ln", "ln") + "(assert (not (and (= (psum E (store a ln v) ln) (psum E a ln)) (= (psum E (store a ln v) (+ ln 1)) (+ (psum E a ln) (nn (select E v)))))))\n")
direct("cor.append2", APP + ext_inst("(store (store a ln v) (+ ln 1) w)", "a", "ln", "ln") +
       "(assert (not (and (= (psum E (store (store a ln v) (+ ln 1) w) ln) (psum E a ln)) (= (psum E (store (store a ln v) (+ ln 1) w) (+ ln 2)) (+ (+ (psum E a ln) (nn (select E v))) (nn (select E w)))))))\n")
# single element bounded by a prefix sum that includes it (contract lemma elemInTotal is proved from these by the engine itself)
# big-endian reconstruction identity: the bytes of an n-byte value, weighted by their place, give the value back (n = 2, 4, 8)
for nb in (2, 4, 8):
    terms = " ".join("(* (mod (div v %d) 256) %d)" % (256 ** (nb - 1 - i), 256 ** (nb - 1 - i)) for i in range(nb))
    lemmas["be%d" % nb] = "(set-logic ALL)\n(declare-const v Int)\n(assert (and (<= 0 v) (< v %d)))\n(assert (not (= v (+ %s))))\n(check-sat)\n" % (256 ** nb, terms)
for name, text in sorted(lemmas.items()):
    open(os.path.join(D, name + ".smt2"), "w").write(text)
print(len(lemmas), "files")
