package atree

// Replay for finding C20/CheckStorageHealth: a storage in which a referenced slab is missing must be rejected.
// The missing slab is one of several children of an index slab; its sibling keeps the parent reachable, and the checker
// (before the fix) never looks the dangling reference up.
// Run (from /repo):  go test -overlay <ov.json> -vet=off -count=1 -run TestFindingCheckHealthDanglingReference .
// (types fU64 / fTI come from zz_popiterate_inlined_child_test.go, which is placed in the package by the same overlay)

import (
	"testing"
)

func TestFindingCheckHealthDanglingReference(t *testing.T) {
	storage := NewBasicSlabStorage(nil, nil, nil, nil)
	addr := Address{1, 2, 3, 4, 5, 6, 7, 8}

	array, err := NewArray(storage, addr, fTI{})
	if err != nil {
		t.Fatal(err)
	}
	for i := 0; i < 2000; i++ {
		if err := array.Append(fU64(1 << 40)); err != nil {
			t.Fatal(err)
		}
	}
	root, ok := array.root.(*ArrayMetaDataSlab)
	if !ok || len(root.childrenHeaders) < 2 {
		t.Fatalf("expected an index root with at least two children")
	}
	if _, err := CheckStorageHealth(storage, 1); err != nil {
		t.Fatalf("healthy storage rejected: %v", err)
	}

	// delete the last child of the root: the root still references it
	victim := root.childrenHeaders[len(root.childrenHeaders)-1].slabID
	if _, isLeaf := storage.Slabs[victim].(*ArrayDataSlab); !isLeaf {
		t.Skip("children are not leaves")
	}
	delete(storage.Slabs, victim)

	roots, err := CheckStorageHealth(storage, 1)
	if err == nil {
		t.Fatalf("storage with a dangling reference to %s accepted; roots = %v", victim, roots)
	}
}
