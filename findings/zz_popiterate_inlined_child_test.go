package atree

// Replay for finding C10/PopIterate: bulk pop through a handle to an inlined child must be visible through the parent.
// Run (from /repo):  go test -overlay <ov.json> -vet=off -count=1 -run TestFindingPopIterateInlinedChild .

import (
	"testing"

	"github.com/fxamacker/cbor/v2"
)

type fU64 uint64

func (v fU64) Storable(SlabStorage, Address, uint32) (Storable, error) { return v, nil }
func (v fU64) Encode(enc *Encoder) error                              { return enc.CBOR.EncodeUint64(uint64(v)) }
func (v fU64) ByteSize() uint32                                        { return GetUintCBORSize(uint64(v)) }
func (v fU64) StoredValue(SlabStorage) (Value, error)                  { return v, nil }
func (v fU64) ChildStorables() []Storable                              { return nil }
func (v fU64) CanCopyNonRefSimple() bool                               { return true }
func (v fU64) CopyNonRefSimple() (Storable, error)                     { return v, nil }

type fTI struct{}

func (fTI) Encode(e *cbor.StreamEncoder) error { return e.EncodeUint8(42) }
func (fTI) IsComposite() bool                  { return false }
func (fTI) Copy() TypeInfo                     { return fTI{} }

type fBase struct{ m map[SlabID][]byte }

func (b *fBase) Store(id SlabID, d []byte) error { b.m[id] = d; return nil }
func (b *fBase) Retrieve(id SlabID) ([]byte, bool, error) {
	d, ok := b.m[id]
	return d, ok, nil
}
func (b *fBase) Remove(id SlabID) error { delete(b.m, id); return nil }
func (b *fBase) GenerateSlabID(a Address) (SlabID, error) {
	var idx SlabIndex
	idx[7] = byte(len(b.m) + 1)
	idx[6] = byte(fBaseCounter)
	fBaseCounter++
	return NewSlabID(a, idx), nil
}
func (b *fBase) SegmentCounts() int   { return len(b.m) }
func (b *fBase) Size() int            { return 0 }
func (b *fBase) BytesRetrieved() int  { return 0 }
func (b *fBase) BytesStored() int     { return 0 }
func (b *fBase) SegmentsReturned() int { return 0 }
func (b *fBase) SegmentsUpdated() int { return 0 }
func (b *fBase) SegmentsTouched() int { return 0 }
func (b *fBase) ResetReporter()       {}

var fBaseCounter = 1

func TestFindingPopIterateInlinedChild(t *testing.T) {
	em, _ := cbor.EncOptions{}.EncMode()
	dm, _ := cbor.DecOptions{}.DecMode()
	storage := NewPersistentSlabStorage(&fBase{m: map[SlabID][]byte{}}, em, dm, nil, nil)
	addr := Address{1, 2, 3, 4, 5, 6, 7, 8}

	parent, err := NewArray(storage, addr, fTI{})
	if err != nil {
		t.Fatal(err)
	}
	child, err := NewArray(storage, addr, fTI{})
	if err != nil {
		t.Fatal(err)
	}
	for i := 0; i < 5; i++ {
		if err := child.Append(fU64(1000 + i)); err != nil {
			t.Fatal(err)
		}
	}
	if err := parent.Append(child); err != nil {
		t.Fatal(err)
	}
	if !child.Inlined() {
		t.Fatal("setup: child should be inlined")
	}
	if err := storage.FastCommit(1); err != nil {
		t.Fatal(err)
	}

	// mutate the child through its handle: bulk pop
	if err := child.PopIterate(func(Storable) {}); err != nil {
		t.Fatal(err)
	}
	if child.Count() != 0 {
		t.Fatal("child not empty after PopIterate")
	}

	// the mutation must be visible when reading through the parent
	v, err := parent.Get(0)
	if err != nil {
		t.Fatal(err)
	}
	got := v.(*Array).Count()
	if got != 0 {
		t.Errorf("reading the child through the parent: count %d, want 0 (mutation through the handle is not visible through the parent)", got)
	}
	// and the parent's size bookkeeping must match its elements
	root := parent.root.(*ArrayDataSlab)
	sum := root.getPrefixSize()
	for _, e := range root.elements {
		sum += e.ByteSize()
	}
	if sum != root.header.size {
		t.Errorf("parent slab reports %d bytes, its elements add up to %d", root.header.size, sum)
	}
	// and it must be persisted by the next commit
	if storage.Deltas() == 0 {
		t.Errorf("parent was not recorded as changed: nothing pending after mutating the inlined child")
	}
}
