#!/bin/sh
# Build the verifier from the sources on disk (offline).
set -e
cd "$(dirname "$0")"
. ./env.sh
mkdir -p bin
(cd engine && go build -o ../bin/govc .)
echo "govc built"
