package main

// Evaluation of Go expressions over symbolic state; lvalue assignment.

import (
	"os"
	"fmt"
	"go/ast"
	"go/constant"
	"go/token"
	"go/types"
	"math/big"
	"strings"
)

func (vc *VC) sortOf(t types.Type) string { return vc.eng.sorts.sortOf(t) }

func (vc *VC) mk(s string, t types.Type) Val {
	return Val{S: s, Ty: t, Sort: vc.sortOf(t)}
}

func (vc *VC) typeOf(e ast.Expr) types.Type {
	tv, ok := vc.eng.info.Types[e]
	if ok && tv.Type != nil {
		return vc.subst(tv.Type)
	}
	if id, ok := e.(*ast.Ident); ok {
		if o := vc.eng.info.ObjectOf(id); o != nil {
			return vc.subst(o.Type())
		}
	}
	return types.Typ[types.Invalid]
}

// subst: type-parameter substitution for the current (generic, inlined) frame.
func (vc *VC) subst(t types.Type) types.Type {
	if len(vc.frames) == 0 {
		return t
	}
	m := vc.frames[len(vc.frames)-1].targs
	if m == nil {
		return t
	}
	return substType(t, m)
}

func substType(t types.Type, m map[*types.TypeParam]types.Type) types.Type {
	switch u := t.(type) {
	case *types.TypeParam:
		if r, ok := m[u]; ok {
			return r
		}
	case *types.Slice:
		return types.NewSlice(substType(u.Elem(), m))
	case *types.Pointer:
		return types.NewPointer(substType(u.Elem(), m))
	case *types.Array:
		return types.NewArray(substType(u.Elem(), m), u.Len())
	case *types.Map:
		return types.NewMap(substType(u.Key(), m), substType(u.Elem(), m))
	}
	return t
}

func (vc *VC) assumeRange(st *State, v Val) {
	if f := vc.eng.sorts.rangeFact(v.S, v.Ty, 0); f != "" {
		vc.assume(st, f)
	}
	vc.assumeRefFacts(st, v)
}

// facts about pointer / interface values: allocated (or nil / boxed), dynamic type of typed pointers
func (vc *VC) assumeRefFacts(st *State, v Val) {
	if v.Ty == nil {
		return
	}
	switch u := v.Ty.Underlying().(type) {
	case *types.Slice:
		// the backing store of an existing slice was made earlier (or the slice is nil)
		if isAtom(v.S) || strings.HasPrefix(v.S, "(select ") {
			f := fmt.Sprintf("(or (<= (org_%s %s) 0) (select %s (org_%s %s)))", v.Sort, v.S, st.alloc, v.Sort, v.S)
			key := "og|" + f
			if !vc.rangeAsserted[key] {
				vc.rangeAsserted[key] = true
				vc.assume(st, f)
			}
		}
		// every reference stored in a slice of pointers / interfaces is nil, boxed, or an allocated object
		switch u.Elem().Underlying().(type) {
		case *types.Pointer, *types.Interface:
			if isAtom(v.S) || strings.HasPrefix(v.S, "(select ") {
				f := fmt.Sprintf("(forall ((k_al Int)) (! (or (<= (select (arr_%s %s) k_al) 0) (select %s (select (arr_%s %s) k_al))) :pattern ((select (arr_%s %s) k_al))))", v.Sort, v.S, st.alloc, v.Sort, v.S, v.Sort, v.S)
				if vc.onlyPointers(u.Elem()) {
					// no boxed values: a pointer, or an interface all of whose (sealed) implementers are pointer types, is nil or an object
					f = fmt.Sprintf("(forall ((k_al Int)) (! (or (= (select (arr_%s %s) k_al) 0) (and (> (select (arr_%s %s) k_al) 0) (select %s (select (arr_%s %s) k_al)))) :pattern ((select (arr_%s %s) k_al))))", v.Sort, v.S, v.Sort, v.S, st.alloc, v.Sort, v.S, v.Sort, v.S)
				}
				key := "al|" + f
				if !vc.rangeAsserted[key] {
					vc.rangeAsserted[key] = true
					vc.assume(st, f)
				}
			}
		}
	case *types.Pointer:
		vc.needDyntype()
		vc.assume(st, fmt.Sprintf("(or (= %s 0) (and (> %s 0) (select %s %s) (= (dyntype %s) %d)))", v.S, v.S, st.alloc, v.S, v.S, vc.eng.sorts.tid(v.Ty)))
		_ = u
	case *types.Interface:
		vc.needDyntype()
		f := fmt.Sprintf("(or (<= %s 0) (select %s %s))", v.S, st.alloc, v.S)
		if vc.onlyPointers(v.Ty) {
			f = fmt.Sprintf("(or (= %s 0) (and (> %s 0) (select %s %s)))", v.S, v.S, st.alloc, v.S)
		}
		vc.assume(st, f)
		if impls := vc.eng.closedImplementers(v.Ty); impls != nil {
			var ds []string
			ds = append(ds, fmt.Sprintf("(= %s 0)", v.S))
			for _, it := range impls {
				ds = append(ds, fmt.Sprintf("(= (dyntype %s) %d)", v.S, vc.eng.sorts.tid(it)))
			}
			vc.assume(st, "(or "+strings.Join(ds, " ")+")")
		}
	}
}

// onlyPointers: t is a pointer type, or a sealed interface whose implementers are all pointer types (its values are never boxed)
func (vc *VC) onlyPointers(t types.Type) bool {
	if os.Getenv("GOVC_NOONLYPTR") != "" {
		return false
	}
	switch t.Underlying().(type) {
	case *types.Pointer:
		return true
	case *types.Interface:
		impls := vc.eng.closedImplementers(t)
		if impls == nil {
			return false
		}
		for _, it := range impls {
			if _, ok := it.Underlying().(*types.Pointer); !ok {
				return false
			}
		}
		return true
	}
	return false
}

func (vc *VC) needDyntype() {
	vc.declareFun("dyntype", []string{"Int"}, "Int")
}

func constToTerm(cv constant.Value, t types.Type, vc *VC) (string, bool) {
	switch cv.Kind() {
	case constant.Bool:
		if constant.BoolVal(cv) {
			return "true", true
		}
		return "false", true
	case constant.Int:
		if b, ok := t.Underlying().(*types.Basic); ok && b.Info()&types.IsFloat != 0 {
			return constant.ToInt(cv).ExactString() + ".0", true
		}
		bi, ok := new(big.Int).SetString(cv.ExactString(), 10)
		if !ok {
			return "", false
		}
		return smtInt(bi), true
	case constant.Float:
		if b, ok := t.Underlying().(*types.Basic); ok && b.Info()&types.IsInteger != 0 {
			iv := constant.ToInt(cv)
			if iv.Kind() == constant.Int {
				bi, _ := new(big.Int).SetString(iv.ExactString(), 10)
				return smtInt(bi), true
			}
		}
		r, _ := new(big.Rat).SetString(cv.ExactString())
		if r == nil {
			return "", false
		}
		return fmt.Sprintf("(/ %s.0 %s.0)", r.Num().String(), r.Denom().String()), true
	case constant.String:
		return fmt.Sprintf("%d", vc.eng.strID(constant.StringVal(cv))), true
	}
	return "", false
}

// eval evaluates a Go expression. It may add facts / obligations and (for calls) update st.
func (vc *VC) eval(st *State, e ast.Expr) Val {
	// constants
	if tv, ok := vc.eng.info.Types[e]; ok && tv.Value != nil {
		if s, ok := constToTerm(tv.Value, tv.Type, vc); ok {
			return vc.mk(s, tv.Type)
		}
	}
	switch x := e.(type) {
	case *ast.ParenExpr:
		return vc.eval(st, x.X)
	case *ast.Ident:
		return vc.evalIdent(st, x)
	case *ast.BasicLit:
		vc.unsupportedf(x.Pos(), "literal %s", x.Value)
		return vc.havocVal(st, vc.typeOf(e), "lit")
	case *ast.SelectorExpr:
		return vc.evalSelector(st, x)
	case *ast.IndexExpr:
		return vc.evalIndex(st, x)
	case *ast.SliceExpr:
		return vc.evalSliceExpr(st, x)
	case *ast.StarExpr:
		p := vc.eval(st, x.X)
		return vc.deref(st, p, x.Pos())
	case *ast.UnaryExpr:
		return vc.evalUnary(st, x)
	case *ast.BinaryExpr:
		return vc.evalBinary(st, x)
	case *ast.CallExpr:
		vs := vc.evalCall(st, x)
		if len(vs) == 1 {
			return vs[0]
		}
		if len(vs) == 0 {
			return Val{S: "0", Sort: "Int"}
		}
		vc.unsupportedf(x.Pos(), "multi-value call in single-value context")
		return vs[0]
	case *ast.CompositeLit:
		return vc.evalCompositeLit(st, x)
	case *ast.TypeAssertExpr:
		v, ok := vc.evalTypeAssert(st, x)
		vc.emit(st, "assert-type", vc.fn.Key+"/assert-type", vc.site("assert-type"), ok, x.Pos(), "")
		vc.assume(st, ok)
		return v
	case *ast.FuncLit:
		return vc.evalFuncLit(st, x)
	case *ast.KeyValueExpr:
		vc.unsupportedf(x.Pos(), "key-value expr")
	}
	vc.unsupportedf(e.Pos(), "expression %T", e)
	return vc.havocVal(st, vc.typeOf(e), "unk")
}

func (vc *VC) site(kind string) string {
	vc.safetyOrd[kind]++
	return fmt.Sprintf("%d", vc.safetyOrd[kind])
}

func (vc *VC) havocVal(st *State, t types.Type, prefix string) Val {
	s := vc.sortOf(t)
	n := vc.fresh(prefix, s)
	v := Val{S: n, Ty: t, Sort: s}
	vc.assumeRange(st, v)
	return v
}

func (vc *VC) evalIdent(st *State, id *ast.Ident) Val {
	obj := vc.eng.info.ObjectOf(id)
	if obj == nil {
		if id.Name == "_" {
			return Val{S: "0", Sort: "Int"}
		}
		vc.unsupportedf(id.Pos(), "unresolved identifier %s", id.Name)
		return Val{S: "0", Sort: "Int"}
	}
	switch o := obj.(type) {
	case *types.Nil:
		t := vc.typeOf(id)
		return vc.mk(vc.eng.sorts.zero(t), t)
	case *types.Const:
		if s, ok := constToTerm(o.Val(), o.Type(), vc); ok {
			return vc.mk(s, o.Type())
		}
	case *types.Var:
		if t, ok := st.locals[o]; ok {
			return vc.mk(t, vc.subst(o.Type()))
		}
		if vc.boxedLocal(o) != "" {
			return vc.readBoxed(st, o)
		}
		if o.Parent() == vc.eng.pkg.Types.Scope() || (o.Pkg() != nil && o.Parent() == o.Pkg().Scope()) {
			if o.Pkg() == vc.eng.pkg.Types {
				t := vc.getGlobal(st, o)
				v := vc.mk(t, o.Type())
				if _, seen := st.globals[o]; !seen {
					// initial facts about package-level variables
					if f := vc.eng.sorts.rangeFact(t, o.Type(), 0); f != "" {
						vc.addAxiom(f)
					}
					if iv, ok := vc.eng.globalConstInit[o]; ok {
						vc.addAxiom(fmt.Sprintf("(= %s %s)", t, iv))
					}
				}
				return v
			}
			// foreign package variable: opaque constant
			n := "X_" + sanitize(o.Pkg().Name()+"."+o.Name())
			vc.declare(n, vc.sortOf(o.Type()))
			return vc.mk(n, o.Type())
		}
		// captured variable of an enclosing function (closure verified standalone) or unknown
		n := "free_" + sanitize(o.Name())
		vc.declare(n, vc.sortOf(o.Type()))
		st.locals[o] = n
		v := vc.mk(n, o.Type())
		vc.assumeRange(st, v)
		return v
	case *types.Func:
		// function value
		n := "fn_" + sanitize(o.FullName())
		vc.declare(n, "Int")
		return vc.mk(n, o.Type())
	}
	vc.unsupportedf(id.Pos(), "identifier %s (%T)", id.Name, obj)
	return vc.havocVal(st, vc.typeOf(id), "id")
}

func (vc *VC) addAxiom(f string) {
	if vc.eng.axiomSeen == nil {
		vc.eng.axiomSeen = map[string]bool{}
	}
	k := vc.fn.Key + "|" + f
	if vc.eng.axiomSeen[k] {
		return
	}
	vc.eng.axiomSeen[k] = true
	d := "(assert " + f + ")"
	vc.globalAxioms = append(vc.globalAxioms, d)
}

// ---- struct field access ----

func (vc *VC) fieldSel(structVal Val, fieldName string) (Val, bool) {
	si := vc.eng.sorts.structInfoOf(structVal.Ty)
	if si == nil {
		return Val{}, false
	}
	for _, f := range si.Fields {
		if f.Name == fieldName {
			return Val{S: fmt.Sprintf("(%s__%s %s)", si.Sort, f.Name, structVal.S), Ty: f.Type, Sort: f.Sort}, true
		}
	}
	return Val{}, false
}

func (vc *VC) structUpdate(structVal Val, fieldName string, nv string) string {
	si := vc.eng.sorts.structInfoOf(structVal.Ty)
	var parts []string
	for _, f := range si.Fields {
		if f.Name == fieldName {
			parts = append(parts, nv)
		} else {
			parts = append(parts, fmt.Sprintf("(%s__%s %s)", si.Sort, f.Name, structVal.S))
		}
	}
	return fmt.Sprintf("(mk_%s %s)", si.Sort, strings.Join(parts, " "))
}

func namedStructOf(t types.Type) (*types.Named, *types.Struct) {
	t = types.Unalias(t)
	if n, ok := t.(*types.Named); ok {
		if s, ok := n.Underlying().(*types.Struct); ok {
			return n, s
		}
	}
	return nil, nil
}

func (vc *VC) heapKey(n *types.Named, field string) string {
	return n.Obj().Name() + "." + field
}

// read field of object pointed to by ptr (ptr : *T)
func (vc *VC) readField(st *State, ptr Val, n *types.Named, f *types.Var, pos token.Pos) Val {
	vc.nilCheck(st, ptr, pos)
	key := vc.heapKey(n, f.Name())
	es := vc.sortOf(f.Type())
	arr := vc.heapGet(st, key, es)
	v := Val{S: fmt.Sprintf("(select %s %s)", arr, ptr.S), Ty: f.Type(), Sort: es}
	vc.assumeRange(st, v)
	return v
}

func (vc *VC) nilCheck(st *State, ptr Val, pos token.Pos) {
	if vc.knownNonNil(st, ptr.S) {
		return
	}
	vc.emit(st, "nil", vc.fn.Key+"/nil", vc.site("nil"), fmt.Sprintf("(not (= %s 0))", ptr.S), pos, "")
	vc.assume(st, fmt.Sprintf("(not (= %s 0))", ptr.S))
}

func (vc *VC) knownNonNil(st *State, term string) bool {
	f := fmt.Sprintf("(not (= %s 0))", term)
	for i := len(st.pc) - 1; i >= 0 && i >= len(st.pc)-400; i-- {
		if st.pc[i] == f {
			return true
		}
	}
	return false
}

func (vc *VC) writeField(st *State, ptr Val, n *types.Named, f *types.Var, nv string, pos token.Pos) {
	vc.nilCheck(st, ptr, pos)
	key := vc.heapKey(n, f.Name())
	es := vc.sortOf(f.Type())
	arr := vc.heapGet(st, key, es)
	vc.heapSet(st, key, es, fmt.Sprintf("(store %s %s %s)", arr, ptr.S, nv))
	vc.noteWrite(st, ptr, n)
}

func (vc *VC) deref(st *State, p Val, pos token.Pos) Val {
	pt, ok := p.Ty.Underlying().(*types.Pointer)
	if !ok {
		vc.unsupportedf(pos, "deref of non-pointer")
		return vc.havocVal(st, types.Typ[types.Int], "deref")
	}
	if n, s := namedStructOf(pt.Elem()); n != nil && vc.eng.inPkg(n) {
		// reconstruct the struct value from heap fields
		vc.nilCheck(st, p, pos)
		var parts []string
		for i := 0; i < s.NumFields(); i++ {
			f := s.Field(i)
			es := vc.sortOf(f.Type())
			arr := vc.heapGet(st, vc.heapKey(n, f.Name()), es)
			parts = append(parts, fmt.Sprintf("(select %s %s)", arr, p.S))
		}
		sn := vc.sortOf(pt.Elem())
		if len(parts) == 0 {
			parts = []string{"0"}
		}
		return Val{S: fmt.Sprintf("(mk_%s %s)", sn, strings.Join(parts, " ")), Ty: pt.Elem(), Sort: sn}
	}
	vc.nilCheck(st, p, pos)
	es := vc.sortOf(pt.Elem())
	key := "ptr:" + es
	arr := vc.heapGet(st, key, es)
	v := Val{S: fmt.Sprintf("(select %s %s)", arr, p.S), Ty: pt.Elem(), Sort: es}
	vc.assumeRange(st, v)
	return v
}

func (vc *VC) storeDeref(st *State, p Val, nv Val, pos token.Pos) {
	pt := p.Ty.Underlying().(*types.Pointer)
	if n, s := namedStructOf(pt.Elem()); n != nil && vc.eng.inPkg(n) {
		vc.nilCheck(st, p, pos)
		for i := 0; i < s.NumFields(); i++ {
			f := s.Field(i)
			fv, _ := vc.fieldSel(nv, f.Name())
			es := vc.sortOf(f.Type())
			key := vc.heapKey(n, f.Name())
			arr := vc.heapGet(st, key, es)
			vc.heapSet(st, key, es, fmt.Sprintf("(store %s %s %s)", arr, p.S, fv.S))
		}
		vc.noteWrite(st, p, n)
		return
	}
	vc.nilCheck(st, p, pos)
	es := vc.sortOf(pt.Elem())
	key := "ptr:" + es
	arr := vc.heapGet(st, key, es)
	vc.heapSet(st, key, es, fmt.Sprintf("(store %s %s %s)", arr, p.S, nv.S))
}

func (vc *VC) evalSelector(st *State, x *ast.SelectorExpr) Val {
	// qualified identifier (pkg.Name)
	if id, ok := x.X.(*ast.Ident); ok {
		if _, isPkg := vc.eng.info.ObjectOf(id).(*types.PkgName); isPkg {
			obj := vc.eng.info.ObjectOf(x.Sel)
			switch o := obj.(type) {
			case *types.Const:
				if s, ok := constToTerm(o.Val(), o.Type(), vc); ok {
					return vc.mk(s, o.Type())
				}
			case *types.Var:
				n := "X_" + sanitize(o.Pkg().Name()+"."+o.Name())
				vc.declare(n, vc.sortOf(o.Type()))
				return vc.mk(n, o.Type())
			case *types.Func:
				n := "fn_" + sanitize(o.FullName())
				vc.declare(n, "Int")
				return vc.mk(n, o.Type())
			}
			vc.unsupportedf(x.Pos(), "qualified identifier %s.%s", id.Name, x.Sel.Name)
			return vc.havocVal(st, vc.typeOf(x), "q")
		}
	}
	sel := vc.eng.info.Selections[x]
	if sel == nil {
		vc.unsupportedf(x.Pos(), "selector without selection")
		return vc.havocVal(st, vc.typeOf(x), "sel")
	}
	switch sel.Kind() {
	case types.FieldVal:
		base := vc.eval(st, x.X)
		return vc.selectPath(st, base, sel.Index(), x.Pos())
	case types.MethodVal:
		// method value (bound) - opaque
		vc.eval(st, x.X)
		return vc.havocVal(st, vc.typeOf(x), "mval")
	}
	vc.unsupportedf(x.Pos(), "selector kind")
	return vc.havocVal(st, vc.typeOf(x), "sel")
}

// follow a field index path from base (struct value or pointer to struct)
func (vc *VC) selectPath(st *State, base Val, path []int, pos token.Pos) Val {
	cur := base
	for _, idx := range path {
		t := cur.Ty
		if pt, ok := t.Underlying().(*types.Pointer); ok {
			n, s := namedStructOf(pt.Elem())
			if n == nil || !vc.eng.inPkg(n) {
				if s2, ok := pt.Elem().Underlying().(*types.Struct); ok {
					// foreign or anonymous struct behind pointer: opaque field
					vc.notes = append(vc.notes, "opaque field read "+s2.Field(idx).Name())
					cur = vc.opaqueField(st, cur, s2.Field(idx))
					continue
				}
				vc.unsupportedf(pos, "field access through pointer to non-struct")
				return vc.havocVal(st, types.Typ[types.Int], "sel")
			}
			cur = vc.readField(st, cur, n, s.Field(idx), pos)
			continue
		}
		s, ok := t.Underlying().(*types.Struct)
		if !ok {
			vc.unsupportedf(pos, "field access on non-struct %s", t)
			return vc.havocVal(st, types.Typ[types.Int], "sel")
		}
		if vc.sortOf(t) == "Int" { // opaque foreign struct
			cur = vc.opaqueField(st, cur, s.Field(idx))
			continue
		}
		fv, ok := vc.fieldSel(cur, s.Field(idx).Name())
		if !ok {
			vc.unsupportedf(pos, "field %s not found", s.Field(idx).Name())
			return vc.havocVal(st, s.Field(idx).Type(), "sel")
		}
		cur = fv
	}
	return cur
}

func (vc *VC) opaqueField(st *State, base Val, f *types.Var) Val {
	fs := vc.sortOf(f.Type())
	fn := "opq_" + sanitize(f.Name()) + "_" + mangle(fs)
	vc.declareFun(fn, []string{"Int"}, fs)
	v := Val{S: fmt.Sprintf("(%s %s)", fn, base.S), Ty: f.Type(), Sort: fs}
	return v
}

// ---- index / slice ----

func (vc *VC) sliceParts(v Val) (arr, ln, org string) {
	s := v.Sort
	return fmt.Sprintf("(arr_%s %s)", s, v.S), fmt.Sprintf("(len_%s %s)", s, v.S), fmt.Sprintf("(org_%s %s)", s, v.S)
}

func (vc *VC) evalIndex(st *State, x *ast.IndexExpr) Val {
	// generic instantiation f[T]
	if tv, ok := vc.eng.info.Types[x.X]; ok {
		if _, isSig := tv.Type.Underlying().(*types.Signature); isSig {
			return vc.eval(st, x.X)
		}
	}
	base := vc.eval(st, x.X)
	switch u := base.Ty.Underlying().(type) {
	case *types.Slice:
		idx := vc.eval(st, x.Index)
		arr, ln, _ := vc.sliceParts(base)
		vc.emit(st, "bounds", vc.fn.Key+"/bounds", vc.site("bounds"), fmt.Sprintf("(and (<= 0 %s) (< %s %s))", idx.S, idx.S, ln), x.Pos(), "")
		vc.assume(st, fmt.Sprintf("(and (<= 0 %s) (< %s %s))", idx.S, idx.S, ln))
		v := Val{S: fmt.Sprintf("(select %s %s)", arr, idx.S), Ty: u.Elem(), Sort: vc.sortOf(u.Elem())}
		vc.assumeRange(st, v)
		return v
	case *types.Array:
		idx := vc.eval(st, x.Index)
		vc.emit(st, "bounds", vc.fn.Key+"/bounds", vc.site("bounds"), fmt.Sprintf("(and (<= 0 %s) (< %s %d))", idx.S, idx.S, u.Len()), x.Pos(), "")
		if isByteArraySmall(u) {
			// big-endian byte extraction
			return Val{S: vc.byteOfBE(base.S, idx.S, u.Len()), Ty: u.Elem(), Sort: "Int"}
		}
		v := Val{S: fmt.Sprintf("(select %s %s)", base.S, idx.S), Ty: u.Elem(), Sort: vc.sortOf(u.Elem())}
		vc.assumeRange(st, v)
		return v
	case *types.Pointer:
		if a, ok := u.Elem().Underlying().(*types.Array); ok {
			av := vc.deref(st, base, x.Pos())
			idx := vc.eval(st, x.Index)
			vc.emit(st, "bounds", vc.fn.Key+"/bounds", vc.site("bounds"), fmt.Sprintf("(and (<= 0 %s) (< %s %d))", idx.S, idx.S, a.Len()), x.Pos(), "")
			if isByteArraySmall(a) {
				return Val{S: vc.byteOfBE(av.S, idx.S, a.Len()), Ty: a.Elem(), Sort: "Int"}
			}
			v := Val{S: fmt.Sprintf("(select %s %s)", av.S, idx.S), Ty: a.Elem(), Sort: vc.sortOf(a.Elem())}
			vc.assumeRange(st, v)
			return v
		}
	case *types.Map:
		k := vc.evalConv(st, x.Index, u.Key())
		ms := base.Sort
		present := fmt.Sprintf("(select (dom_%s %s) %s)", ms, base.S, k.S)
		val := fmt.Sprintf("(select (val_%s %s) %s)", ms, base.S, k.S)
		zero := vc.eng.sorts.zero(u.Elem())
		v := Val{S: fmt.Sprintf("(ite %s %s %s)", present, val, zero), Ty: u.Elem(), Sort: vc.sortOf(u.Elem())}
		v.S = vc.define("mget", v.Sort, v.S)
		vc.assumeRange(st, v)
		return v
	case *types.Basic:
		if u.Info()&types.IsString != 0 {
			vc.eval(st, x.Index)
			return vc.havocVal(st, types.Typ[types.Uint8], "strb")
		}
	}
	vc.unsupportedf(x.Pos(), "index on %s", base.Ty)
	return vc.havocVal(st, vc.typeOf(x), "idx")
}

// beIdentity: the n bytes of the big-endian representation of v (0 <= v < 256^n) put together again give v. The identity is a
// theorem of integer arithmetic (proved for n = 2, 4, 8 in /verif/lemmas, be<n>.smt2: cvc5 decides it, z3 does not), stated here
// as a ground fact because the solvers do not find it inside a larger query.
func (vc *VC) beIdentity(st *State, arr, v string, n int64) {
	if n != 2 && n != 4 && n != 8 {
		return
	}
	lim := new(big.Int).Exp(big.NewInt(256), big.NewInt(n), nil)
	vc.assume(st, fmt.Sprintf("(=> (and (<= 0 %s) (< %s %s)) (= %s %s))", v, v, lim.String(), vc.beValue(arr, "0", n), v))
	vc.noteAssumption("big-endian reconstruction identity for 2/4/8-byte values (proved in /verif/lemmas)")
}

func (vc *VC) byteOfBE(v, idx string, n int64) string {
	// byte idx of an n-byte big-endian number v
	var cases string
	cases = "0"
	for i := n - 1; i >= 0; i-- {
		p := new(big.Int).Exp(big.NewInt(256), big.NewInt(n-1-i), nil)
		cases = fmt.Sprintf("(ite (= %s %d) (mod (div %s %s) 256) %s)", idx, i, v, p.String(), cases)
	}
	return cases
}

func (vc *VC) mapLookup(st *State, m Val, k Val) (val Val, ok string) {
	u := m.Ty.Underlying().(*types.Map)
	ms := m.Sort
	present := fmt.Sprintf("(select (dom_%s %s) %s)", ms, m.S, k.S)
	raw := fmt.Sprintf("(select (val_%s %s) %s)", ms, m.S, k.S)
	zero := vc.eng.sorts.zero(u.Elem())
	v := Val{S: fmt.Sprintf("(ite %s %s %s)", present, raw, zero), Ty: u.Elem(), Sort: vc.sortOf(u.Elem())}
	v.S = vc.define("mget", v.Sort, v.S)
	vc.assumeRange(st, v)
	vc.assume(st, fmt.Sprintf("(=> %s (>= (card_%s %s) 1))", present, ms, m.S))
	return v, present
}

func intElems(t types.Type) bool {
	if t == nil {
		return false
	}
	var e types.Type
	switch u := t.Underlying().(type) {
	case *types.Slice:
		e = u.Elem()
	case *types.Array:
		e = u.Elem()
	case *types.Pointer:
		if a, ok := u.Elem().Underlying().(*types.Array); ok {
			e = a.Elem()
		}
	}
	if e == nil {
		return false
	}
	b, ok := e.Underlying().(*types.Basic)
	return ok && b.Info()&types.IsInteger != 0
}

func (vc *VC) evalSliceExpr(st *State, x *ast.SliceExpr) Val {
	if intElems(vc.typeOf(x)) {
		vc.bytesCtx++
		defer func() { vc.bytesCtx-- }()
	}
	base := vc.eval(st, x.X)
	var lo, hi string
	lo = "0"
	if x.Low != nil {
		lo = vc.eval(st, x.Low).S
	}
	mkSlice := func(sortS, arr, baseLen, org string, elemT types.Type, capLen string) Val {
		if x.High != nil {
			hi = vc.eval(st, x.High).S
		} else {
			hi = baseLen
		}
		limit := baseLen
		if capLen != "" {
			limit = capLen
		}
		if ce, ok := x.High.(*ast.CallExpr); ok {
			if id, ok := ce.Fun.(*ast.Ident); ok && id.Name == "cap" {
				// x[a:cap(x)]: reslicing up to the capacity is always legal; the extra elements are unconstrained
				limit = hi
			}
		}
		goal := fmt.Sprintf("(and (<= 0 %s) (<= %s %s) (<= %s %s))", lo, lo, hi, hi, limit)
		vc.emit(st, "bounds", vc.fn.Key+"/bounds", vc.site("bounds"), goal, x.Pos(), "")
		vc.assume(st, goal)
		narr := arr
		if lo != "0" {
			// shifted view
			es := vc.sortOf(elemT)
			sh := vc.fresh("shift", "(Array Int "+es+")")
			vc.assume(st, fmt.Sprintf("(forall ((k Int)) (! (= (select %s k) (select %s (+ k %s))) :pattern ((select %s k))))", sh, arr, lo, sh))
			narr = sh
			loS, hiS := lo, hi
			vc.sumFacts(st, es, func(ps func(a, n string) string, fv func(v string) string) []string {
				return []string{fmt.Sprintf("(= %s (- %s %s))", ps(sh, fmt.Sprintf("(- %s %s)", hiS, loS)), ps(arr, hiS), ps(arr, loS))}
			})
		}
		return Val{S: fmt.Sprintf("(mk_%s %s (- %s %s) %s)", sortS, narr, hi, lo, org), Ty: types.NewSlice(elemT), Sort: sortS}
	}
	switch u := base.Ty.Underlying().(type) {
	case *types.Slice:
		arr, ln, org := vc.sliceParts(base)
		capLen := ""
		if x.High != nil {
			// reslicing beyond len up to cap is legal Go; capacity is not modelled, so we require <= len unless the
			// expression is of the form s[:0] etc. (always fine)
			capLen = ""
		}
		v := mkSlice(base.Sort, arr, ln, org, u.Elem(), capLen)
		v.Ty = base.Ty
		return v
	case *types.Array:
		if isByteArraySmall(u) {
			// view of a small byte array: materialise bytes
			es := "Int"
			arr := vc.fresh("bytes", "(Array Int Int)")
			for i := int64(0); i < u.Len(); i++ {
				vc.assume(st, fmt.Sprintf("(= (select %s %d) %s)", arr, i, vc.byteOfBE(base.S, fmt.Sprint(i), u.Len())))
			}
			vc.beIdentity(st, arr, base.S, u.Len())
			_ = es
			sortS := vc.sortOf(types.NewSlice(u.Elem()))
			org := vc.fresh("org", "Int")
			return mkSlice(sortS, arr, fmt.Sprint(u.Len()), org, u.Elem(), "")
		}
		sortS := vc.sortOf(types.NewSlice(u.Elem()))
		org := vc.fresh("org", "Int")
		return mkSlice(sortS, base.S, fmt.Sprint(u.Len()), org, u.Elem(), "")
	case *types.Basic:
		if u.Info()&types.IsString != 0 {
			if x.High != nil {
				vc.eval(st, x.High)
			}
			return vc.havocVal(st, base.Ty, "substr")
		}
	case *types.Pointer:
		if a, ok := u.Elem().Underlying().(*types.Array); ok {
			av := vc.deref(st, base, x.Pos())
			sortS := vc.sortOf(types.NewSlice(a.Elem()))
			org := vc.fresh("org", "Int")
			if isByteArraySmall(a) {
				// view of a small byte array behind a pointer: materialise bytes
				arr := vc.fresh("bytes", "(Array Int Int)")
				for i := int64(0); i < a.Len(); i++ {
					vc.assume(st, fmt.Sprintf("(= (select %s %d) %s)", arr, i, vc.byteOfBE(av.S, fmt.Sprint(i), a.Len())))
				}
				vc.beIdentity(st, arr, av.S, a.Len())
				return mkSlice(sortS, arr, fmt.Sprint(a.Len()), org, a.Elem(), "")
			}
			return mkSlice(sortS, av.S, fmt.Sprint(a.Len()), org, a.Elem(), "")
		}
	}
	vc.unsupportedf(x.Pos(), "slice expression on %s", base.Ty)
	return vc.havocVal(st, vc.typeOf(x), "slice")
}

// ---- unary / binary ----

func (vc *VC) evalUnary(st *State, x *ast.UnaryExpr) Val {
	switch x.Op {
	case token.NOT:
		v := vc.eval(st, x.X)
		return Val{S: "(not " + v.S + ")", Ty: v.Ty, Sort: "Bool"}
	case token.SUB:
		v := vc.eval(st, x.X)
		t := vc.typeOf(x)
		r := Val{S: "(- " + v.S + ")", Ty: t, Sort: v.Sort}
		return vc.wrapArith(st, r, t, x.Pos())
	case token.ADD:
		return vc.eval(st, x.X)
	case token.AND:
		return vc.evalAddrOf(st, x)
	case token.XOR:
		v := vc.eval(st, x.X)
		t := vc.typeOf(x)
		if b, ok := t.Underlying().(*types.Basic); ok {
			if _, hi, ok := intRange(b); ok && b.Info()&types.IsUnsigned != 0 {
				return Val{S: fmt.Sprintf("(- %s %s)", hi.String(), v.S), Ty: t, Sort: "Int"}
			}
			return Val{S: fmt.Sprintf("(- (- %s) 1)", v.S), Ty: t, Sort: "Int"}
		}
	case token.ARROW:
		if vc.contract != nil && vc.contract.Options["recv-havoc"] != "" {
			// a received value is unconstrained; what is assumed about it is stated by `recv N: assume ...` clauses
			vc.eval(st, x.X)
			vc.recvOrd++
			vc.pendingRecv = vc.recvOrd
			vc.noteAssumption(fmt.Sprintf("channel receive #%d in %s: value unconstrained except for the contract's recv-assume clause", vc.recvOrd, vc.fn.Key))
			return vc.havocVal(st, vc.typeOf(x), "recv")
		}
		vc.cutState = st
		vc.concurrency(x.Pos(), "channel receive")
		return vc.havocVal(st, vc.typeOf(x), "recv")
	}
	vc.unsupportedf(x.Pos(), "unary %s", x.Op)
	return vc.havocVal(st, vc.typeOf(x), "un")
}

func (vc *VC) evalAddrOf(st *State, x *ast.UnaryExpr) Val {
	t := vc.typeOf(x)
	inner := x.X
	for {
		if p, ok := inner.(*ast.ParenExpr); ok {
			inner = p.X
			continue
		}
		break
	}
	switch y := inner.(type) {
	case *ast.CompositeLit:
		v := vc.evalCompositeLit(st, y)
		return vc.allocObject(st, v, t)
	case *ast.Ident:
		if o, ok := vc.eng.info.ObjectOf(y).(*types.Var); ok {
			if ref := vc.boxedLocal(o); ref != "" {
				return vc.mk(st.locals[vc.boxKey(o)], t)
			}
		}
	case *ast.SelectorExpr, *ast.IndexExpr:
		// address of a field or element: opaque pointer (aliasing not tracked)
		vc.eval(st, y)
		vc.notes = append(vc.notes, vc.eng.pos(x.Pos())+": address of field/element treated as opaque pointer")
		p := vc.havocVal(st, t, "addr")
		return p
	}
	vc.unsupportedf(x.Pos(), "address-of %T", inner)
	return vc.havocVal(st, t, "addr")
}

// allocate a new object holding struct value v; returns pointer
func (vc *VC) allocObject(st *State, v Val, ptrT types.Type) Val {
	vc.needDyntype()
	r := vc.fresh("new", "Int")
	vc.assume(st, fmt.Sprintf("(and (> %s 0) (not (select %s %s)) (= (dyntype %s) %d))", r, st.alloc, r, r, vc.eng.sorts.tid(ptrT)))
	st.alloc = vc.define("alloc", "(Array Int Bool)", fmt.Sprintf("(store %s %s true)", st.alloc, r))
	p := Val{S: r, Ty: ptrT, Sort: "Int"}
	pt := ptrT.Underlying().(*types.Pointer)
	if n, s := namedStructOf(pt.Elem()); n != nil && vc.eng.inPkg(n) {
		for i := 0; i < s.NumFields(); i++ {
			f := s.Field(i)
			fv, _ := vc.fieldSel(v, f.Name())
			es := vc.sortOf(f.Type())
			key := vc.heapKey(n, f.Name())
			arr := vc.heapGet(st, key, es)
			vc.heapSet(st, key, es, fmt.Sprintf("(store %s %s %s)", arr, r, fv.S))
		}
		vc.noteFresh(st, p, n)
	} else {
		es := vc.sortOf(pt.Elem())
		key := "ptr:" + es
		arr := vc.heapGet(st, key, es)
		vc.heapSet(st, key, es, fmt.Sprintf("(store %s %s %s)", arr, r, v.S))
	}
	vc.assume(st, fmt.Sprintf("(not (= %s 0))", r))
	return p
}

func isUnsigned(t types.Type) bool {
	if b, ok := t.Underlying().(*types.Basic); ok {
		return b.Info()&types.IsUnsigned != 0
	}
	return false
}

func isInteger(t types.Type) bool {
	if b, ok := t.Underlying().(*types.Basic); ok {
		return b.Info()&types.IsInteger != 0
	}
	return false
}

func isFloat(t types.Type) bool {
	if b, ok := t.Underlying().(*types.Basic); ok {
		return b.Info()&types.IsFloat != 0
	}
	return false
}

func isString(t types.Type) bool {
	if b, ok := t.Underlying().(*types.Basic); ok {
		return b.Info()&types.IsString != 0
	}
	return false
}

// wrapArith: emit a no-wrap obligation for an integer result of type t, then treat it as in range.
func (vc *VC) wrapArith(st *State, r Val, t types.Type, pos token.Pos) Val {
	b, ok := t.Underlying().(*types.Basic)
	if !ok {
		return r
	}
	lo, hi, ok := intRange(b)
	if !ok {
		return r
	}
	r.S = vc.define("ar", "Int", r.S)
	goal := fmt.Sprintf("(and (<= %s %s) (<= %s %s))", smtInt(lo), r.S, r.S, smtInt(hi))
	if vc.bvMode() {
		// wrap-around semantics, no obligation
		m := new(big.Int).Add(new(big.Int).Sub(hi, lo), big.NewInt(1))
		if lo.Sign() == 0 {
			r.S = vc.define("wr", "Int", fmt.Sprintf("(mod %s %s)", r.S, m.String()))
		} else {
			r.S = vc.define("wr", "Int", fmt.Sprintf("(+ (mod (- %s %s) %s) %s)", r.S, smtInt(lo), m.String(), smtInt(lo)))
		}
		return r
	}
	vc.emit(st, "arith", vc.fn.Key+"/arith", vc.site("arith"), goal, pos, "")
	vc.assume(st, goal)
	return r
}

func (vc *VC) bvMode() bool {
	return vc.contract != nil && vc.contract.Options["wrap"] == "true"
}

func (vc *VC) evalBinary(st *State, x *ast.BinaryExpr) Val {
	switch x.Op {
	case token.LAND, token.LOR:
		l := vc.eval(st, x.X)
		g := l.S
		if x.Op == token.LOR {
			g = "(not " + l.S + ")"
		}
		savedGuards := st.guards
		st.guards = append(append([]string(nil), savedGuards...), g)
		r := vc.eval(st, x.Y)
		st.guards = savedGuards
		if x.Op == token.LAND {
			return Val{S: fmt.Sprintf("(and %s %s)", l.S, r.S), Ty: l.Ty, Sort: "Bool"}
		}
		return Val{S: fmt.Sprintf("(or %s %s)", l.S, r.S), Ty: l.Ty, Sort: "Bool"}
	}
	l := vc.eval(st, x.X)
	r := vc.eval(st, x.Y)
	// comparison operand conversion (interface vs concrete)
	lt, rt := vc.typeOf(x.X), vc.typeOf(x.Y)
	if x.Op == token.EQL || x.Op == token.NEQ {
		if types.IsInterface(lt) && !types.IsInterface(rt) && !isNilType(rt) {
			r = vc.convert(st, r, lt)
		} else if types.IsInterface(rt) && !types.IsInterface(lt) && !isNilType(lt) {
			l = vc.convert(st, l, rt)
		}
	}
	return vc.binop(st, x.Op, l, r, vc.typeOf(x), lt, x.Pos())
}

func isNilType(t types.Type) bool {
	b, ok := t.(*types.Basic)
	return ok && b.Kind() == types.UntypedNil
}

func (vc *VC) binop(st *State, op token.Token, l, r Val, resT, opT types.Type, pos token.Pos) Val {
	boolV := func(s string) Val { return Val{S: s, Ty: types.Typ[types.Bool], Sort: "Bool"} }
	switch op {
	case token.EQL, token.NEQ:
		var eq string
		if _, ok := opT.Underlying().(*types.Slice); ok {
			// only comparison with nil is legal
			sv := l
			if isNilType(l.Ty) || l.Sort != vc.sortOf(opT) {
				sv = r
			}
			eq = fmt.Sprintf("(= (org_%s %s) 0)", sv.Sort, sv.S)
			if l.Sort == r.Sort && !strings.HasPrefix(l.S, "(mk_") && !strings.HasPrefix(r.S, "(mk_") {
				eq = fmt.Sprintf("(= %s %s)", l.S, r.S)
			}
		} else if _, ok := opT.Underlying().(*types.Map); ok {
			sv := l
			if l.Sort != vc.sortOf(opT) {
				sv = r
			}
			vc.declareFun("mapnil_"+sv.Sort, []string{sv.Sort}, "Bool")
			eq = fmt.Sprintf("(mapnil_%s %s)", sv.Sort, sv.S)
		} else {
			if l.Sort != r.Sort {
				// nil against typed
				if l.Sort == "Int" && r.S == "0" || r.Sort == "Int" && l.S == "0" {
				} else {
					vc.unsupportedf(pos, "comparison of different sorts %s %s", l.Sort, r.Sort)
				}
			}
			eq = fmt.Sprintf("(= %s %s)", l.S, r.S)
		}
		if op == token.NEQ {
			return boolV("(not " + eq + ")")
		}
		return boolV(eq)
	case token.LSS:
		return boolV(fmt.Sprintf("(< %s %s)", l.S, r.S))
	case token.LEQ:
		return boolV(fmt.Sprintf("(<= %s %s)", l.S, r.S))
	case token.GTR:
		return boolV(fmt.Sprintf("(> %s %s)", l.S, r.S))
	case token.GEQ:
		return boolV(fmt.Sprintf("(>= %s %s)", l.S, r.S))
	}
	if isString(resT) {
		if op == token.ADD {
			vc.declareFun("strcat", []string{"Int", "Int"}, "Int")
			return Val{S: fmt.Sprintf("(strcat %s %s)", l.S, r.S), Ty: resT, Sort: "Int"}
		}
	}
	if isFloat(resT) {
		var s string
		switch op {
		case token.ADD:
			s = fmt.Sprintf("(+ %s %s)", l.S, r.S)
		case token.SUB:
			s = fmt.Sprintf("(- %s %s)", l.S, r.S)
		case token.MUL:
			s = fmt.Sprintf("(* %s %s)", l.S, r.S)
		case token.QUO:
			s = fmt.Sprintf("(/ %s %s)", l.S, r.S)
		default:
			vc.unsupportedf(pos, "float op %s", op)
			return vc.havocVal(st, resT, "f")
		}
		vc.noteAssumption("float64 arithmetic modelled as exact real arithmetic")
		return Val{S: s, Ty: resT, Sort: "Real"}
	}
	if !isInteger(resT) {
		vc.unsupportedf(pos, "binary %s on %s", op, resT)
		return vc.havocVal(st, resT, "bin")
	}
	var s string
	switch op {
	case token.ADD:
		s = fmt.Sprintf("(+ %s %s)", l.S, r.S)
	case token.SUB:
		s = fmt.Sprintf("(- %s %s)", l.S, r.S)
	case token.MUL:
		s = fmt.Sprintf("(* %s %s)", l.S, r.S)
	case token.QUO:
		vc.emit(st, "div0", vc.fn.Key+"/div0", vc.site("div0"), fmt.Sprintf("(not (= %s 0))", r.S), pos, "")
		if isUnsigned(resT) {
			return Val{S: fmt.Sprintf("(div %s %s)", l.S, r.S), Ty: resT, Sort: "Int"}
		}
		// truncated division for signed
		s = fmt.Sprintf("(ite (>= %s 0) (div %s %s) (- (div (- %s) %s)))", l.S, l.S, r.S, l.S, r.S)
		return vc.wrapArith(st, Val{S: s, Ty: resT, Sort: "Int"}, resT, pos)
	case token.REM:
		vc.emit(st, "div0", vc.fn.Key+"/div0", vc.site("div0"), fmt.Sprintf("(not (= %s 0))", r.S), pos, "")
		if isUnsigned(resT) {
			return Val{S: fmt.Sprintf("(mod %s %s)", l.S, r.S), Ty: resT, Sort: "Int"}
		}
		s = fmt.Sprintf("(ite (>= %s 0) (mod %s (abs %s)) (- (mod (- %s) (abs %s))))", l.S, l.S, r.S, l.S, r.S)
		return Val{S: s, Ty: resT, Sort: "Int"}
	case token.SHL, token.SHR:
		// constant shift amounts only
		if n, ok := smallConst(r.S); ok {
			p := new(big.Int).Exp(big.NewInt(2), big.NewInt(n), nil)
			if op == token.SHR {
				if isUnsigned(resT) {
					return Val{S: fmt.Sprintf("(div %s %s)", l.S, p.String()), Ty: resT, Sort: "Int"}
				}
				return Val{S: fmt.Sprintf("(div %s %s)", l.S, p.String()), Ty: resT, Sort: "Int"}
			}
			s = fmt.Sprintf("(* %s %s)", l.S, p.String())
			if vc.bvMode() || true {
				// Go shifts discard high bits: model exactly as modular for unsigned
				if b, ok := resT.Underlying().(*types.Basic); ok && b.Info()&types.IsUnsigned != 0 {
					_, hi, _ := intRange(b)
					m := new(big.Int).Add(hi, big.NewInt(1))
					return Val{S: vc.define("shl", "Int", fmt.Sprintf("(mod %s %s)", s, m.String())), Ty: resT, Sort: "Int"}
				}
			}
			return vc.wrapArith(st, Val{S: s, Ty: resT, Sort: "Int"}, resT, pos)
		}
		return vc.bitop(st, op, l, r, resT, pos)
	case token.AND, token.OR, token.XOR, token.AND_NOT:
		return vc.bitop(st, op, l, r, resT, pos)
	default:
		vc.unsupportedf(pos, "binary op %s", op)
		return vc.havocVal(st, resT, "bin")
	}
	return vc.wrapArith(st, Val{S: s, Ty: resT, Sort: "Int"}, resT, pos)
}

func smallConst(s string) (int64, bool) {
	var n int64
	if _, err := fmt.Sscanf(s, "%d", &n); err == nil && fmt.Sprint(n) == s && n >= 0 && n < 64 {
		return n, true
	}
	return 0, false
}

// bit operations on Ints: exact for constant masks of the form 2^k-1 / single bits, otherwise uninterpreted (sound: result only range-constrained)
func (vc *VC) bitop(st *State, op token.Token, l, r Val, resT types.Type, pos token.Pos) Val {
	width := int64(64)
	if b, ok := resT.Underlying().(*types.Basic); ok {
		switch b.Kind() {
		case types.Uint8, types.Int8:
			width = 8
		case types.Uint16, types.Int16:
			width = 16
		case types.Uint32, types.Int32:
			width = 32
		}
	}
	if isUnsigned(resT) || true {
		// encode via bit-vectors with int2bv/bv2nat is avoided; use per-bit arithmetic for small widths when one side is a constant
		if c, ok := bigConst(r.S); ok && c.Sign() >= 0 {
			return vc.bitopConst(st, op, l, c, width, resT)
		}
		if c, ok := bigConst(l.S); ok && c.Sign() >= 0 && op != token.AND_NOT && op != token.SHL && op != token.SHR {
			return vc.bitopConst(st, op, r, c, width, resT)
		}
	}
	name := map[token.Token]string{token.AND: "bitand", token.OR: "bitor", token.XOR: "bitxor", token.AND_NOT: "bitandnot", token.SHL: "bitshl", token.SHR: "bitshr"}[op]
	vc.declareFun(name, []string{"Int", "Int"}, "Int")
	v := Val{S: fmt.Sprintf("(%s %s %s)", name, l.S, r.S), Ty: resT, Sort: "Int"}
	v.S = vc.define("bit", "Int", v.S)
	vc.assumeRange(st, v)
	if op == token.AND {
		vc.assume(st, fmt.Sprintf("(and (<= %s %s) (<= %s %s))", v.S, l.S, v.S, r.S))
	}
	vc.notes = append(vc.notes, vc.eng.pos(pos)+": bit operation on two symbolic operands left uninterpreted")
	return v
}

func bigConst(s string) (*big.Int, bool) {
	b, ok := new(big.Int).SetString(s, 10)
	return b, ok
}

// x OP const, exact: decompose constant into maximal runs of bits
func (vc *VC) bitopConst(st *State, op token.Token, x Val, c *big.Int, width int64, resT types.Type) Val {
	// result = sum over bit-runs [lo,hi) of f(run of x)
	// run value of x: (mod (div x 2^lo) 2^(hi-lo))
	type run struct {
		lo, hi int64
		set    bool
	}
	var runs []run
	var i int64
	for i < width {
		b := c.Bit(int(i)) == 1
		j := i
		for j < width && (c.Bit(int(j)) == 1) == b {
			j++
		}
		runs = append(runs, run{i, j, b})
		i = j
	}
	pow := func(n int64) string { return new(big.Int).Exp(big.NewInt(2), big.NewInt(n), nil).String() }
	var terms []string
	for _, rn := range runs {
		xr := fmt.Sprintf("(* (mod (div %s %s) %s) %s)", x.S, pow(rn.lo), pow(rn.hi-rn.lo), pow(rn.lo))
		ones := new(big.Int).Sub(new(big.Int).Exp(big.NewInt(2), big.NewInt(rn.hi), nil), new(big.Int).Exp(big.NewInt(2), big.NewInt(rn.lo), nil)).String()
		switch op {
		case token.AND:
			if rn.set {
				terms = append(terms, xr)
			}
		case token.OR:
			if rn.set {
				terms = append(terms, ones)
			} else {
				terms = append(terms, xr)
			}
		case token.XOR:
			if rn.set {
				terms = append(terms, fmt.Sprintf("(- %s %s)", ones, xr))
			} else {
				terms = append(terms, xr)
			}
		case token.AND_NOT:
			if !rn.set {
				terms = append(terms, xr)
			}
		}
	}
	s := "0"
	if len(terms) == 1 {
		s = terms[0]
	} else if len(terms) > 1 {
		s = "(+ " + strings.Join(terms, " ") + ")"
	}
	return Val{S: vc.define("bit", "Int", s), Ty: resT, Sort: "Int"}
}

func (vc *VC) noteAssumption(s string) {
	if vc.assumptionsUsed == nil {
		vc.assumptionsUsed = map[string]bool{}
	}
	vc.assumptionsUsed[s] = true
}

// ---- conversions ----

func (vc *VC) evalConv(st *State, e ast.Expr, target types.Type) Val {
	v := vc.eval(st, e)
	return vc.convert(st, v, target)
}

// convert value to target type for assignment (implicit interface boxing)
func (vc *VC) convert(st *State, v Val, target types.Type) Val {
	if target == nil || v.Ty == nil {
		return v
	}
	if types.IsInterface(target) {
		if types.IsInterface(v.Ty) || isNilType(v.Ty) {
			return Val{S: v.S, Ty: target, Sort: "Int"}
		}
		if _, ok := v.Ty.Underlying().(*types.Pointer); ok {
			return Val{S: v.S, Ty: target, Sort: "Int"}
		}
		if _, ok := v.Ty.Underlying().(*types.Signature); ok {
			return Val{S: v.S, Ty: target, Sort: "Int"}
		}
		// box a value type
		return Val{S: vc.box(st, v), Ty: target, Sort: "Int"}
	}
	if isNilType(v.Ty) {
		return vc.mk(vc.eng.sorts.zero(target), target)
	}
	return Val{S: v.S, Ty: target, Sort: vc.sortOf(target)}
}

func (vc *VC) boxNames(t types.Type) (box, unbox string, tid int) {
	tid = vc.eng.sorts.tid(t)
	s := vc.sortOf(t)
	box = fmt.Sprintf("box_%d", tid)
	unbox = fmt.Sprintf("unbox_%d", tid)
	vc.declareFun(box, []string{s}, "Int")
	vc.declareFun(unbox, []string{"Int"}, s)
	return
}

func (vc *VC) box(st *State, v Val) string {
	vc.needDyntype()
	box, unbox, tid := vc.boxNames(v.Ty)
	if !vc.boxFuncs[box] {
		vc.boxFuncs[box] = true
		s := vc.sortOf(v.Ty)
		// boxing is injective, boxed values live in the negative range, and carry their dynamic type
		vc.globalAxioms = append(vc.globalAxioms, fmt.Sprintf("(assert (forall ((v %s)) (! (and (< (%s v) 0) (= (dyntype (%s v)) %d) (= (%s (%s v)) v)) :pattern ((%s v)))))", s, box, box, tid, unbox, box, box))
	}
	return fmt.Sprintf("(%s %s)", box, v.S)
}

// explicit conversion T(x)
func (vc *VC) evalConversion(st *State, target types.Type, arg ast.Expr, pos token.Pos) Val {
	v := vc.eval(st, arg)
	src := v.Ty
	if src == nil {
		return v
	}
	tu := target.Underlying()
	su := src.Underlying()
	switch t := tu.(type) {
	case *types.Basic:
		if sb, ok := su.(*types.Basic); ok {
			switch {
			case t.Info()&types.IsInteger != 0 && sb.Info()&types.IsInteger != 0:
				return vc.intConv(st, v, target, pos)
			case t.Info()&types.IsFloat != 0 && sb.Info()&types.IsInteger != 0:
				return Val{S: fmt.Sprintf("(to_real %s)", v.S), Ty: target, Sort: "Real"}
			case t.Info()&types.IsInteger != 0 && sb.Info()&types.IsFloat != 0:
				// truncation toward zero
				s := fmt.Sprintf("(ite (>= %s 0.0) (to_int %s) (- (to_int (- %s))))", v.S, v.S, v.S)
				return vc.wrapArith(st, Val{S: s, Ty: target, Sort: "Int"}, target, pos)
			case t.Info()&types.IsFloat != 0 && sb.Info()&types.IsFloat != 0:
				return Val{S: v.S, Ty: target, Sort: "Real"}
			case t.Info()&types.IsString != 0:
				return vc.havocVal(st, target, "str")
			}
		}
		if t.Info()&types.IsString != 0 {
			return vc.havocVal(st, target, "str")
		}
	case *types.Interface:
		return vc.convert(st, v, target)
	case *types.Slice:
		if isString(src) {
			return vc.havocVal(st, target, "bytes")
		}
	}
	// same underlying representation
	if vc.sortOf(target) == v.Sort {
		return Val{S: v.S, Ty: target, Sort: v.Sort}
	}
	if r, ok := vc.structConv(v, target); ok {
		return r
	}
	vc.unsupportedf(pos, "conversion %s -> %s", src, target)
	return vc.havocVal(st, target, "conv")
}

func (vc *VC) intConv(st *State, v Val, target types.Type, pos token.Pos) Val {
	tb := target.Underlying().(*types.Basic)
	lo, hi, ok := intRange(tb)
	if !ok {
		return Val{S: v.S, Ty: target, Sort: "Int"}
	}
	// statically in range?
	if sb, ok2 := v.Ty.Underlying().(*types.Basic); ok2 {
		if slo, shi, ok3 := intRange(sb); ok3 && slo.Cmp(lo) >= 0 && shi.Cmp(hi) <= 0 {
			return Val{S: v.S, Ty: target, Sort: "Int"}
		}
	}
	if c, ok := bigConst(v.S); ok && c.Cmp(lo) >= 0 && c.Cmp(hi) <= 0 {
		return Val{S: v.S, Ty: target, Sort: "Int"}
	}
	goal := fmt.Sprintf("(and (<= %s %s) (<= %s %s))", smtInt(lo), v.S, v.S, smtInt(hi))
	if vc.bvMode() || vc.truncOK(pos) {
		m := new(big.Int).Add(new(big.Int).Sub(hi, lo), big.NewInt(1))
		if lo.Sign() == 0 {
			return Val{S: vc.define("tr", "Int", fmt.Sprintf("(mod %s %s)", v.S, m.String())), Ty: target, Sort: "Int"}
		}
		return Val{S: vc.define("tr", "Int", fmt.Sprintf("(+ (mod (- %s %s) %s) %s)", v.S, smtInt(lo), m.String(), smtInt(lo))), Ty: target, Sort: "Int"}
	}
	vc.emit(st, "arith", vc.fn.Key+"/arith", vc.site("arith"), goal, pos, "")
	vc.assume(st, goal)
	return Val{S: v.S, Ty: target, Sort: "Int"}
}

func (vc *VC) truncOK(pos token.Pos) bool { return false }

// ---- composite literals ----

func (vc *VC) evalCompositeLit(st *State, x *ast.CompositeLit) Val {
	t := vc.typeOf(x)
	switch u := t.Underlying().(type) {
	case *types.Struct:
		if vc.sortOf(t) == "Int" {
			for _, el := range x.Elts {
				if kv, ok := el.(*ast.KeyValueExpr); ok {
					vc.eval(st, kv.Value)
				} else {
					vc.eval(st, el)
				}
			}
			return vc.havocVal(st, t, "fstruct")
		}
		si := vc.eng.sorts.structInfoOf(t)
		vals := make([]string, len(si.Fields))
		for i, f := range si.Fields {
			vals[i] = vc.eng.sorts.zeroOfSort(f.Sort, f.Type)
		}
		for i, el := range x.Elts {
			if kv, ok := el.(*ast.KeyValueExpr); ok {
				name := kv.Key.(*ast.Ident).Name
				for j, f := range si.Fields {
					if f.Name == name {
						vals[j] = vc.evalConv(st, kv.Value, f.Type).S
					}
				}
			} else {
				vals[i] = vc.evalConv(st, el, si.Fields[i].Type).S
			}
		}
		if len(vals) == 0 {
			vals = []string{"0"}
		}
		return Val{S: fmt.Sprintf("(mk_%s %s)", si.Sort, strings.Join(vals, " ")), Ty: t, Sort: si.Sort}
	case *types.Slice:
		es := vc.sortOf(u.Elem())
		ss := vc.sortOf(t)
		arr := vc.eng.sorts.zeroOfSort("(Array Int "+es+")", nil)
		n := 0
		for _, el := range x.Elts {
			if _, ok := el.(*ast.KeyValueExpr); ok {
				vc.unsupportedf(x.Pos(), "keyed slice literal")
				return vc.havocVal(st, t, "lit")
			}
			v := vc.evalConv(st, el, u.Elem())
			arr = fmt.Sprintf("(store %s %d %s)", arr, n, v.S)
			n++
		}
		org := vc.fresh("org", "Int")
		vc.assume(st, fmt.Sprintf("(> %s 0)", org))
		vc.noteFreshOrigin(st, org)
		return Val{S: fmt.Sprintf("(mk_%s %s %d %s)", ss, arr, n, org), Ty: t, Sort: ss}
	case *types.Array:
		if isByteArraySmall(u) && len(x.Elts) == 0 {
			return vc.mk("0", t)
		}
		if isByteArraySmall(u) {
			// big-endian number of the listed bytes (missing trailing elements are zero)
			var terms []string
			keyed := false
			for i, el := range x.Elts {
				if _, ok := el.(*ast.KeyValueExpr); ok {
					keyed = true
					break
				}
				v := vc.evalConv(st, el, u.Elem())
				terms = append(terms, fmt.Sprintf("(* %s %s)", v.S, pow256(u.Len()-1-int64(i))))
			}
			if !keyed {
				return vc.mk("(+ 0 "+strings.Join(terms, " ")+")", t)
			}
		}
		es := vc.sortOf(u.Elem())
		arr := vc.eng.sorts.zeroOfSort("(Array Int "+es+")", nil)
		for i, el := range x.Elts {
			if _, ok := el.(*ast.KeyValueExpr); ok {
				vc.unsupportedf(x.Pos(), "keyed array literal")
				return vc.havocVal(st, t, "lit")
			}
			v := vc.evalConv(st, el, u.Elem())
			arr = fmt.Sprintf("(store %s %d %s)", arr, i, v.S)
		}
		if isByteArraySmall(u) {
			vc.unsupportedf(x.Pos(), "small byte array literal with elements")
		}
		return Val{S: arr, Ty: t, Sort: vc.sortOf(t)}
	case *types.Map:
		if len(x.Elts) == 0 {
			return vc.newMap(st, t)
		}
	}
	vc.unsupportedf(x.Pos(), "composite literal of %s", t)
	return vc.havocVal(st, t, "lit")
}

func (vc *VC) newMap(st *State, t types.Type) Val {
	ms := vc.sortOf(t)
	z := vc.eng.sorts.zero(t)
	v := Val{S: z, Ty: t, Sort: ms}
	vc.declareFun("mapnil_"+ms, []string{ms}, "Bool")
	_ = st
	return v
}

// ---- type assertions ----

func (vc *VC) evalTypeAssert(st *State, x *ast.TypeAssertExpr) (Val, string) {
	v := vc.eval(st, x.X)
	t := vc.typeOf(x.Type)
	return vc.typeAssert(st, v, t)
}

func (vc *VC) typeAssert(st *State, v Val, t types.Type) (Val, string) {
	vc.needDyntype()
	if types.IsInterface(t) {
		ok := vc.implementsTerm(st, v, t)
		return Val{S: v.S, Ty: t, Sort: "Int"}, ok
	}
	tid := vc.eng.sorts.tid(t)
	if _, isPtr := t.Underlying().(*types.Pointer); isPtr {
		ok := fmt.Sprintf("(and (not (= %s 0)) (= (dyntype %s) %d))", v.S, v.S, tid)
		return Val{S: v.S, Ty: t, Sort: "Int"}, ok
	}
	_, unbox, _ := vc.boxNames(t)
	ok := fmt.Sprintf("(and (not (= %s 0)) (= (dyntype %s) %d))", v.S, v.S, tid)
	res := Val{S: fmt.Sprintf("(%s %s)", unbox, v.S), Ty: t, Sort: vc.sortOf(t)}
	return res, ok
}

func (vc *VC) implementsTerm(st *State, v Val, iface types.Type) string {
	name := "impl_" + sanitize(types.TypeString(iface, func(p *types.Package) string { return "" }))
	if len(name) > 60 {
		name = fmt.Sprintf("impl_t%d", vc.eng.sorts.tid(iface))
	}
	first := !vc.declared[name]
	vc.declareFun(name, []string{"Int"}, "Bool")
	if first {
		// facts for all known in-package types
		it := iface.Underlying().(*types.Interface)
		sealed := false
		for k := 0; k < it.NumMethods(); k++ {
			if !it.Method(k).Exported() {
				sealed = true
			}
		}
		var impls []string
		defer func() {
			if sealed {
				// an interface with an unexported method can only be implemented inside the package (closed world)
				body := "false"
				if len(impls) > 0 {
					body = "(or false " + strings.Join(impls, " ") + ")"
				}
				vc.addAxiom(fmt.Sprintf("(forall ((t_i Int)) (! (=> (%s t_i) %s) :pattern ((%s t_i))))", name, body, name))
				vc.assumptionsUsed["sealed interface "+types.TypeString(iface, func(p *types.Package) string { return "" })+": only in-package types implement it (types outside the package that embed an implementer are not considered)"] = true
			}
		}()
		for _, nt := range vc.eng.namedTypes {
			for _, cand := range []types.Type{nt, types.NewPointer(nt)} {
				if types.IsInterface(cand) {
					continue
				}
				tid := vc.eng.sorts.tid(cand)
				if types.Implements(cand, it) {
					impls = append(impls, fmt.Sprintf("(= t_i %d)", tid))
					vc.addAxiom(fmt.Sprintf("(%s %d)", name, tid))
				} else {
					vc.addAxiom(fmt.Sprintf("(not (%s %d))", name, tid))
				}
			}
		}
	}
	return fmt.Sprintf("(and (not (= %s 0)) (%s (dyntype %s)))", v.S, name, v.S)
}

func (vc *VC) evalFuncLit(st *State, x *ast.FuncLit) Val {
	n := vc.fresh("closure", "Int")
	vc.eng.closureOf[n] = x
	vc.assume(st, fmt.Sprintf("(not (= %s 0))", n))
	return Val{S: n, Ty: vc.typeOf(x), Sort: "Int"}
}

// ---- assignment ----

func (vc *VC) assign(st *State, lhs ast.Expr, v Val) {
	switch x := lhs.(type) {
	case *ast.ParenExpr:
		vc.assign(st, x.X, v)
	case *ast.Ident:
		if x.Name == "_" {
			return
		}
		obj := vc.eng.info.ObjectOf(x)
		o, ok := obj.(*types.Var)
		if !ok {
			vc.unsupportedf(x.Pos(), "assignment to %s", x.Name)
			return
		}
		v = vc.convert(st, v, vc.subst(o.Type()))
		if vc.boxedLocal(o) != "" {
			vc.writeBoxed(st, o, v)
			return
		}
		if _, isLocal := st.locals[o]; isLocal || o.Pkg() == nil || o.Parent() != o.Pkg().Scope() {
			vc.setLocal(st, o, v.S, vc.sortOf(vc.subst(o.Type())))
			return
		}
		if o.Pkg() == vc.eng.pkg.Types {
			t := v.S
			if len(st.guards) > 0 {
				t = fmt.Sprintf("(ite (and %s) %s %s)", strings.Join(st.guards, " "), t, vc.getGlobal(st, o))
			}
			st.globals[o] = vc.define(o.Name(), vc.sortOf(o.Type()), t)
			return
		}
		vc.unsupportedf(x.Pos(), "assignment to foreign variable %s", x.Name)
	case *ast.SelectorExpr:
		sel := vc.eng.info.Selections[x]
		if sel == nil || sel.Kind() != types.FieldVal {
			vc.unsupportedf(x.Pos(), "assignment to selector")
			return
		}
		vc.assignPath(st, x.X, sel.Index(), v, x.Pos())
	case *ast.IndexExpr:
		baseT := vc.typeOf(x.X)
		switch u := baseT.Underlying().(type) {
		case *types.Slice:
			base := vc.eval(st, x.X)
			idx := vc.eval(st, x.Index)
			arr, ln, org := vc.sliceParts(base)
			goal := fmt.Sprintf("(and (<= 0 %s) (< %s %s))", idx.S, idx.S, ln)
			vc.emit(st, "bounds", vc.fn.Key+"/bounds", vc.site("bounds"), goal, x.Pos(), "")
			vc.assume(st, goal)
			v = vc.convert(st, v, u.Elem())
			nv := Val{S: fmt.Sprintf("(mk_%s (store %s %s %s) %s %s)", base.Sort, arr, idx.S, v.S, ln, org), Ty: baseT, Sort: base.Sort}
			vc.assignSliceBase(st, x.X, nv)
		case *types.Array:
			base := vc.eval(st, x.X)
			idx := vc.eval(st, x.Index)
			goal := fmt.Sprintf("(and (<= 0 %s) (< %s %d))", idx.S, idx.S, u.Len())
			vc.emit(st, "bounds", vc.fn.Key+"/bounds", vc.site("bounds"), goal, x.Pos(), "")
			v = vc.convert(st, v, u.Elem())
			if isByteArraySmall(u) {
				// replace byte idx (constant index only)
				if c, ok := smallConst(idx.S); ok {
					p := new(big.Int).Exp(big.NewInt(256), big.NewInt(u.Len()-1-c), nil).String()
					ns := fmt.Sprintf("(+ (- %s (* (mod (div %s %s) 256) %s)) (* %s %s))", base.S, base.S, p, p, v.S, p)
					vc.assign(st, x.X, Val{S: ns, Ty: baseT, Sort: "Int"})
					return
				}
				vc.unsupportedf(x.Pos(), "symbolic index write into small byte array")
				return
			}
			vc.assign(st, x.X, Val{S: fmt.Sprintf("(store %s %s %s)", base.S, idx.S, v.S), Ty: baseT, Sort: base.Sort})
		case *types.Map:
			base := vc.eval(st, x.X)
			k := vc.evalConv(st, x.Index, u.Key())
			v = vc.convert(st, v, u.Elem())
			vc.assign(st, x.X, vc.mapStore(base, k, v))
		case *types.Pointer:
			// p[i] = v with p a pointer to a small byte array: read-modify-write of the pointee
			if at, ok := u.Elem().Underlying().(*types.Array); ok && isByteArraySmall(at) {
				pv := vc.eval(st, x.X)
				cur := vc.deref(st, pv, x.Pos())
				idx := vc.eval(st, x.Index)
				goal := fmt.Sprintf("(and (<= 0 %s) (< %s %d))", idx.S, idx.S, at.Len())
				vc.emit(st, "bounds", vc.fn.Key+"/bounds", vc.site("bounds"), goal, x.Pos(), "")
				v = vc.convert(st, v, at.Elem())
				if c, ok := smallConst(idx.S); ok {
					pw := new(big.Int).Exp(big.NewInt(256), big.NewInt(at.Len()-1-c), nil).String()
					ns := fmt.Sprintf("(+ (- %s (* (mod (div %s %s) 256) %s)) (* %s %s))", cur.S, cur.S, pw, pw, v.S, pw)
					vc.storeDeref(st, pv, Val{S: ns, Ty: u.Elem(), Sort: "Int"}, x.Pos())
					return
				}
				vc.unsupportedf(x.Pos(), "symbolic index write into small byte array")
				return
			}
			vc.unsupportedf(x.Pos(), "index assignment on %s", baseT)
		default:
			vc.unsupportedf(x.Pos(), "index assignment on %s", baseT)
		}
	case *ast.StarExpr:
		p := vc.eval(st, x.X)
		pt, ok := p.Ty.Underlying().(*types.Pointer)
		if !ok {
			vc.unsupportedf(x.Pos(), "store through non-pointer")
			return
		}
		v = vc.convert(st, v, pt.Elem())
		vc.storeDeref(st, p, v, x.Pos())
	default:
		vc.unsupportedf(lhs.Pos(), "assignment target %T", lhs)
	}
}

func (vc *VC) mapStore(m Val, k Val, v Val) Val {
	ms := m.Sort
	present := fmt.Sprintf("(select (dom_%s %s) %s)", ms, m.S, k.S)
	return Val{S: fmt.Sprintf("(mk_%s (store (dom_%s %s) %s true) (store (val_%s %s) %s %s) (ite %s (card_%s %s) (+ (card_%s %s) 1)))",
		ms, ms, m.S, k.S, ms, m.S, k.S, v.S, present, ms, m.S, ms, m.S), Ty: m.Ty, Sort: ms}
}

func (vc *VC) mapDelete(m Val, k Val) Val {
	ms := m.Sort
	present := fmt.Sprintf("(select (dom_%s %s) %s)", ms, m.S, k.S)
	return Val{S: fmt.Sprintf("(mk_%s (store (dom_%s %s) %s false) (val_%s %s) (ite %s (- (card_%s %s) 1) (card_%s %s)))",
		ms, ms, m.S, k.S, ms, m.S, present, ms, m.S, ms, m.S), Ty: m.Ty, Sort: ms}
}

// element store through a slice: contents have value semantics (assumption A1); the base must be an lvalue.
func (vc *VC) assignSliceBase(st *State, base ast.Expr, nv Val) {
	switch b := base.(type) {
	case *ast.Ident, *ast.SelectorExpr:
		if id, ok := b.(*ast.Ident); ok {
			if o, ok := vc.eng.info.ObjectOf(id).(*types.Var); ok {
				if src, aliased := vc.aliasOf[o]; aliased && src != nil {
					// local slice variable aliasing a field: write through to the aliased location as well
					vc.assign(st, src, nv)
				}
			}
		}
		vc.assign(st, base, nv)
	case *ast.ParenExpr:
		vc.assignSliceBase(st, b.X, nv)
	case *ast.SliceExpr:
		// write through a reslice x[lo:hi][i] = v  ==> x[lo+i] = v ; only lo == 0 / absent supported
		if b.Low == nil {
			inner := vc.eval(st, b.X)
			if _, ok := inner.Ty.Underlying().(*types.Slice); ok {
				arr, _, _ := vc.sliceParts(nv)
				_, iln, iorg := vc.sliceParts(inner)
				vc.assignSliceBase(st, b.X, Val{S: fmt.Sprintf("(mk_%s %s %s %s)", inner.Sort, arr, iln, iorg), Ty: inner.Ty, Sort: inner.Sort})
				return
			}
		}
		vc.unsupportedf(base.Pos(), "element store through reslice")
	case *ast.IndexExpr:
		vc.assign(st, base, nv)
	default:
		vc.unsupportedf(base.Pos(), "element store through non-lvalue slice %T", base)
	}
}

// assign into base.path... = v  where base is an expression (pointer or addressable struct)
func (vc *VC) assignPath(st *State, baseE ast.Expr, path []int, v Val, pos token.Pos) {
	baseT := vc.typeOf(baseE)
	if len(path) == 0 {
		vc.assign(st, baseE, v)
		return
	}
	if pt, ok := baseT.Underlying().(*types.Pointer); ok {
		base := vc.eval(st, baseE)
		n, s := namedStructOf(pt.Elem())
		if n == nil || !vc.eng.inPkg(n) {
			vc.unsupportedf(pos, "field write through pointer to %s", pt.Elem())
			return
		}
		f := s.Field(path[0])
		if len(path) == 1 {
			v = vc.convert(st, v, f.Type())
			vc.writeField(st, base, n, f, v.S, pos)
			return
		}
		cur := vc.readField(st, base, n, f, pos)
		nv := vc.updatePath(st, cur, path[1:], v, pos)
		vc.writeField(st, base, n, f, nv, pos)
		return
	}
	// struct value lvalue
	cur := vc.eval(st, baseE)
	nv := vc.updatePath(st, cur, path, v, pos)
	vc.assign(st, baseE, Val{S: nv, Ty: baseT, Sort: cur.Sort})
}

// functional update of struct value cur along path
func (vc *VC) updatePath(st *State, cur Val, path []int, v Val, pos token.Pos) string {
	if pt, ok := cur.Ty.Underlying().(*types.Pointer); ok {
		// nested pointer inside the path: write goes to the heap, the containing value is unchanged
		n, s := namedStructOf(pt.Elem())
		if n == nil || !vc.eng.inPkg(n) {
			vc.unsupportedf(pos, "field write through embedded pointer")
			return cur.S
		}
		f := s.Field(path[0])
		if len(path) == 1 {
			v = vc.convert(st, v, f.Type())
			vc.writeField(st, cur, n, f, v.S, pos)
		} else {
			inner := vc.readField(st, cur, n, f, pos)
			nv := vc.updatePath(st, inner, path[1:], v, pos)
			vc.writeField(st, cur, n, f, nv, pos)
		}
		return cur.S
	}
	s, ok := cur.Ty.Underlying().(*types.Struct)
	if !ok || vc.sortOf(cur.Ty) == "Int" {
		vc.unsupportedf(pos, "field update on %s", cur.Ty)
		return cur.S
	}
	f := s.Field(path[0])
	if len(path) == 1 {
		v = vc.convert(st, v, f.Type())
		return vc.structUpdate(cur, f.Name(), v.S)
	}
	inner, _ := vc.fieldSel(cur, f.Name())
	nv := vc.updatePath(st, inner, path[1:], v, pos)
	return vc.structUpdate(cur, f.Name(), nv)
}


// structConv: conversion between named struct types with identical underlying structs (e.g. SlabID <-> SlabIDStorable)
func (vc *VC) structConv(v Val, target types.Type) (Val, bool) {
	ts, ok1 := target.Underlying().(*types.Struct)
	ss, ok2 := v.Ty.Underlying().(*types.Struct)
	if !ok1 || !ok2 || !types.Identical(ts, ss) {
		return Val{}, false
	}
	ti := vc.eng.sorts.structInfoOf(target)
	si := vc.eng.sorts.structInfoOf(v.Ty)
	if ti == nil || si == nil || len(ti.Fields) != len(si.Fields) {
		return Val{}, false
	}
	var parts []string
	for _, f := range si.Fields {
		parts = append(parts, fmt.Sprintf("(%s__%s %s)", si.Sort, f.Name, v.S))
	}
	if len(parts) == 0 {
		parts = []string{"0"}
	}
	return Val{S: fmt.Sprintf("(mk_%s %s)", ti.Sort, strings.Join(parts, " ")), Ty: target, Sort: ti.Sort}, true
}
