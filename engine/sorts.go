package main

// Mapping of Go types to SMT sorts, datatype registry, zero values, range facts.

import (
	"fmt"
	"go/types"
	"math/big"
	"strings"
)

type structField struct {
	Name string
	Type types.Type
	Sort string
}

type structInfo struct {
	Sort   string
	Fields []structField
}

type SortReg struct {
	pkgPath string
	order   []string          // datatype sort names in declaration order
	decl    map[string]string // sort name -> declare-datatype text
	structs map[string]*structInfo
	anon    map[string]string
	tids    map[string]int
	tidName []string
	slices  map[string]string // slice sort -> elem sort
	maps    map[string][2]string
}

func newSortReg(pkgPath string) *SortReg {
	return &SortReg{pkgPath: pkgPath, decl: map[string]string{}, structs: map[string]*structInfo{}, anon: map[string]string{}, tids: map[string]int{}, slices: map[string]string{}, maps: map[string][2]string{}}
}

func mangle(s string) string {
	r := strings.NewReplacer("(", "", ")", "", " ", "_")
	return r.Replace(s)
}

func (r *SortReg) tid(t types.Type) int {
	k := types.TypeString(t, nil)
	if id, ok := r.tids[k]; ok {
		return id
	}
	id := len(r.tids) + 1
	r.tids[k] = id
	r.tidName = append(r.tidName, k)
	return id
}

func isByteArraySmall(a *types.Array) bool {
	if b, ok := a.Elem().Underlying().(*types.Basic); ok && (b.Kind() == types.Uint8) && a.Len() <= 8 {
		return true
	}
	return false
}

func (r *SortReg) sortOf(t types.Type) string {
	switch u := t.(type) {
	case *types.Alias:
		return r.sortOf(types.Unalias(u))
	case *types.Named:
		if st, ok := u.Underlying().(*types.Struct); ok {
			if u.Obj().Pkg() == nil || u.Obj().Pkg().Path() != r.pkgPath {
				return "Int" // foreign struct values are opaque
			}
			name := "S_" + u.Obj().Name()
			if u.TypeArgs() != nil && u.TypeArgs().Len() > 0 {
				name += "_" + mangle(types.TypeString(u.TypeArgs().At(0), nil))
			}
			r.registerStruct(name, st)
			return name
		}
		return r.sortOf(u.Underlying())
	case *types.Basic:
		switch {
		case u.Info()&types.IsBoolean != 0:
			return "Bool"
		case u.Info()&types.IsFloat != 0:
			return "Real"
		default:
			return "Int"
		}
	case *types.Pointer, *types.Interface, *types.Signature, *types.Chan, *types.TypeParam:
		return "Int"
	case *types.Array:
		if isByteArraySmall(u) {
			return "Int"
		}
		return "(Array Int " + r.sortOf(u.Elem()) + ")"
	case *types.Slice:
		es := r.sortOf(u.Elem())
		name := "Sl_" + mangle(es)
		if _, ok := r.decl[name]; !ok {
			r.decl[name] = fmt.Sprintf("(declare-datatypes ((%s 0)) (((mk_%s (arr_%s (Array Int %s)) (len_%s Int) (org_%s Int)))))", name, name, name, es, name, name)
			r.order = append(r.order, name)
			r.slices[name] = es
		}
		return name
	case *types.Map:
		ks := r.sortOf(u.Key())
		vs := r.sortOf(u.Elem())
		name := "Mp_" + mangle(ks) + "__" + mangle(vs)
		if _, ok := r.decl[name]; !ok {
			r.decl[name] = fmt.Sprintf("(declare-datatypes ((%s 0)) (((mk_%s (dom_%s (Array %s Bool)) (val_%s (Array %s %s)) (card_%s Int)))))", name, name, name, ks, name, ks, vs, name)
			r.order = append(r.order, name)
			r.maps[name] = [2]string{ks, vs}
		}
		return name
	case *types.Struct:
		key := types.TypeString(u, nil)
		if n, ok := r.anon[key]; ok {
			return n
		}
		name := fmt.Sprintf("S_anon%d", len(r.anon)+1)
		r.anon[key] = name
		r.registerStruct(name, u)
		return name
	case *types.Tuple:
		return "Int"
	}
	return "Int"
}

func (r *SortReg) registerStruct(name string, st *types.Struct) {
	if _, ok := r.structs[name]; ok {
		return
	}
	si := &structInfo{Sort: name}
	r.structs[name] = si // pre-register (recursion only through pointers, which are Int)
	var fs []string
	for i := 0; i < st.NumFields(); i++ {
		f := st.Field(i)
		s := r.sortOf(f.Type())
		si.Fields = append(si.Fields, structField{Name: f.Name(), Type: f.Type(), Sort: s})
		fs = append(fs, fmt.Sprintf("(%s__%s %s)", name, f.Name(), s))
	}
	if len(fs) == 0 {
		fs = append(fs, fmt.Sprintf("(%s__dummy Int)", name))
	}
	r.decl[name] = fmt.Sprintf("(declare-datatypes ((%s 0)) (((mk_%s %s))))", name, name, strings.Join(fs, " "))
	r.order = append(r.order, name)
}

func (r *SortReg) structInfoOf(t types.Type) *structInfo {
	s := r.sortOf(t)
	return r.structs[s]
}

func (r *SortReg) prelude() string {
	var b strings.Builder
	for _, n := range r.order {
		b.WriteString(r.decl[n])
		b.WriteString("\n")
	}
	return b.String()
}

// zero value term of a Go type
func (r *SortReg) zero(t types.Type) string {
	s := r.sortOf(t)
	return r.zeroOfSort(s, t)
}

func (r *SortReg) zeroOfSort(s string, t types.Type) string {
	switch s {
	case "Int":
		return "0"
	case "Bool":
		return "false"
	case "Real":
		return "0.0"
	}
	if si, ok := r.structs[s]; ok {
		if len(si.Fields) == 0 {
			return fmt.Sprintf("(mk_%s 0)", s)
		}
		var fs []string
		for _, f := range si.Fields {
			fs = append(fs, r.zeroOfSort(f.Sort, f.Type))
		}
		return fmt.Sprintf("(mk_%s %s)", s, strings.Join(fs, " "))
	}
	if es, ok := r.slices[s]; ok {
		return fmt.Sprintf("(mk_%s ((as const (Array Int %s)) %s) 0 0)", s, es, r.zeroOfSort(es, nil))
	}
	if kv, ok := r.maps[s]; ok {
		return fmt.Sprintf("(mk_%s ((as const (Array %s Bool)) false) ((as const (Array %s %s)) %s) 0)", s, kv[0], kv[0], kv[1], r.zeroOfSort(kv[1], nil))
	}
	if strings.HasPrefix(s, "(Array Int ") {
		es := s[len("(Array Int ") : len(s)-1]
		return fmt.Sprintf("((as const %s) %s)", s, r.zeroOfSort(es, nil))
	}
	return "0"
}

func intRange(b *types.Basic) (lo, hi *big.Int, ok bool) {
	two := big.NewInt(2)
	pow := func(n int64) *big.Int { return new(big.Int).Exp(two, big.NewInt(n), nil) }
	sub1 := func(x *big.Int) *big.Int { return new(big.Int).Sub(x, big.NewInt(1)) }
	switch b.Kind() {
	case types.Uint8:
		return big.NewInt(0), sub1(pow(8)), true
	case types.Uint16:
		return big.NewInt(0), sub1(pow(16)), true
	case types.Uint32:
		return big.NewInt(0), sub1(pow(32)), true
	case types.Uint64, types.Uint, types.Uintptr:
		return big.NewInt(0), sub1(pow(64)), true
	case types.Int8:
		return new(big.Int).Neg(pow(7)), sub1(pow(7)), true
	case types.Int16:
		return new(big.Int).Neg(pow(15)), sub1(pow(15)), true
	case types.Int32:
		return new(big.Int).Neg(pow(31)), sub1(pow(31)), true
	case types.Int64, types.Int:
		return new(big.Int).Neg(pow(63)), sub1(pow(63)), true
	}
	return nil, nil, false
}

func smtInt(x *big.Int) string {
	if x.Sign() < 0 {
		return "(- " + new(big.Int).Neg(x).String() + ")"
	}
	return x.String()
}

// rangeFact returns an SMT formula constraining term (of Go type t) to its type's value range, or "".
func (r *SortReg) rangeFact(term string, t types.Type, depth int) string {
	if t == nil || depth > 3 {
		return ""
	}
	switch u := t.Underlying().(type) {
	case *types.Basic:
		if lo, hi, ok := intRange(u); ok {
			return fmt.Sprintf("(and (<= %s %s) (<= %s %s))", smtInt(lo), term, term, smtInt(hi))
		}
	case *types.Array:
		if isByteArraySmall(u) {
			hi := new(big.Int).Exp(big.NewInt(256), big.NewInt(u.Len()), nil)
			hi.Sub(hi, big.NewInt(1))
			return fmt.Sprintf("(and (<= 0 %s) (<= %s %s))", term, term, hi.String())
		}
	case *types.Struct:
		s := r.sortOf(t)
		si := r.structs[s]
		if si == nil {
			return ""
		}
		var parts []string
		for _, f := range si.Fields {
			if p := r.rangeFact(fmt.Sprintf("(%s__%s %s)", s, f.Name, term), f.Type, depth+1); p != "" {
				parts = append(parts, p)
			}
		}
		if len(parts) == 0 {
			return ""
		}
		if len(parts) == 1 {
			return parts[0]
		}
		return "(and " + strings.Join(parts, " ") + ")"
	case *types.Slice:
		s := r.sortOf(t)
		base := fmt.Sprintf("(and (>= (len_%s %s) 0) (<= (len_%s %s) 72057594037927936))", s, term, s, term)
		if _, isStruct := u.Elem().Underlying().(*types.Struct); isStruct && depth == 0 {
			if ef := r.rangeFact(fmt.Sprintf("(select (arr_%s %s) k_rf)", s, term), u.Elem(), 1); ef != "" {
				return fmt.Sprintf("(and %s (forall ((k_rf Int)) (! %s :pattern ((select (arr_%s %s) k_rf)))))", base, ef, s, term)
			}
		}
		if eb, ok := u.Elem().Underlying().(*types.Basic); ok {
			if lo, hi, ok := intRange(eb); ok && depth == 0 {
				// element values of an integer slice are in the element type's range
				return fmt.Sprintf("(and %s (forall ((k_rf Int)) (! (and (<= %s (select (arr_%s %s) k_rf)) (<= (select (arr_%s %s) k_rf) %s)) :pattern ((select (arr_%s %s) k_rf)))))",
					base, smtInt(lo), s, term, s, term, smtInt(hi), s, term)
			}
		}
		return base
	case *types.Map:
		s := r.sortOf(t)
		return fmt.Sprintf("(and (>= (card_%s %s) 0) (<= (card_%s %s) 9223372036854775807))", s, term, s, term)
	}
	return ""
}
