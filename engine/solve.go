package main

// Query assembly (with cone-of-influence pruning) and the solver portfolio.

import (
	"bytes"
	"context"
	"fmt"
	"os"
	"os/exec"
	"path/filepath"
	"strings"
	"sync"
	"time"
)

func tokenizeSyms(s string, into map[string]bool) {
	i := 0
	for i < len(s) {
		c := s[i]
		if c == '(' || c == ')' || c == ' ' || c == '\n' || c == '\t' {
			i++
			continue
		}
		j := i
		for j < len(s) && s[j] != '(' && s[j] != ')' && s[j] != ' ' && s[j] != '\n' && s[j] != '\t' {
			j++
		}
		into[s[i:j]] = true
		i = j
	}
}

func declName(d string) string {
	// (declare-const NAME ...) or (declare-fun NAME ...
	f := strings.Fields(d)
	if len(f) >= 2 {
		return f[1]
	}
	return ""
}

func (vc *VC) buildQuery(o *Obligation) string {
	need := map[string]bool{}
	tokenizeSyms(o.Goal, need)
	// frame facts (∀r. outside the frame, H'[r] = H[r]) are kept only when the heap version they define is mentioned by
	// the goal, another kept fact, or a kept definition; dropping an assumption is always sound
	var pending []string
	for _, p := range o.PC {
		if _, isFrame := vc.frameFacts[p]; isFrame {
			pending = append(pending, p)
			continue
		}
		tokenizeSyms(p, need)
	}
	droppedFrame := map[string]bool{}
	for _, p := range pending {
		droppedFrame[p] = true
	}
	// axioms are included only when they talk about a declared symbol the query already mentions (relevance closure);
	// an axiom over symbols that occur nowhere else cannot contribute to a refutation
	type ax struct {
		text string
		syms map[string]bool
		used bool
	}
	var axs []*ax
	for _, a := range vc.globalAxioms {
		x := &ax{text: a, syms: map[string]bool{}}
		tokenizeSyms(a, x.syms)
		axs = append(axs, x)
	}
	for _, a := range vc.axiomFacts {
		x := &ax{text: "(assert " + a + ")", syms: map[string]bool{}}
		tokenizeSyms(a, x.syms)
		axs = append(axs, x)
	}
	for _, a := range vc.typeFacts {
		x := &ax{text: "(assert " + a + ")", syms: map[string]bool{}}
		tokenizeSyms(a, x.syms)
		axs = append(axs, x)
	}
	seenDef := map[string]bool{}
	changed := true
	for changed {
		changed = false
		for name, d := range vc.defOf {
			if need[name] && !seenDef[name] {
				seenDef[name] = true
				tokenizeSyms(d, need)
				changed = true
			}
		}
		for _, p := range pending {
			if !droppedFrame[p] {
				continue
			}
			for _, hs := range vc.frameFacts[p] {
				if need[hs] {
					droppedFrame[p] = false
					tokenizeSyms(p, need)
					changed = true
					break
				}
			}
		}
		for _, x := range axs {
			if x.used {
				continue
			}
			rel := false
			for sname := range x.syms {
				if vc.declared[sname] && need[sname] && sname != "dyntype" && sname != "alloc0" {
					rel = true
					break
				}
			}
			if rel {
				x.used = true
				for sname := range x.syms {
					need[sname] = true
				}
				changed = true
			}
		}
	}
	var usedDefs []string
	for _, d := range vc.defs {
		// keep original order
		f := strings.Fields(d)
		if len(f) >= 3 && f[0] == "(assert" && f[1] == "(=" {
			if seenDef[f[2]] {
				usedDefs = append(usedDefs, d)
			}
		} else if strings.HasPrefix(d, "(assert (forall ((r_m Int))") {
			// measure-array definition: keyed by the array constant
			for name, dd := range vc.defOf {
				if dd == d && seenDef[name] {
					usedDefs = append(usedDefs, d)
					break
				}
			}
		}
	}
	var b strings.Builder
	b.WriteString(vc.eng.sorts.prelude())
	for _, d := range vc.decls {
		if need[declName(d)] || strings.HasPrefix(d, "(define-fun nn ") && need["nn"] {
			b.WriteString(d)
			b.WriteString("\n")
		}
	}
	for _, x := range axs {
		if x.used {
			b.WriteString(x.text)
			b.WriteString("\n")
		}
	}
	for _, d := range usedDefs {
		b.WriteString(d)
		b.WriteString("\n")
	}
	for _, p := range o.PC {
		if droppedFrame[p] {
			continue
		}
		b.WriteString("(assert " + p + ")\n")
	}
	b.WriteString("(assert (not " + o.Goal + "))\n")
	return b.String()
}

type solverSpec struct {
	name string
	cmd  func(file string, timeoutS int) []string
	pre  string
}

var solvers = map[string]solverSpec{
	"z3-5.1": {name: "z3-5.1", cmd: func(f string, t int) []string { return []string{"z3-new", fmt.Sprintf("-T:%d", t), f} }},
	"z3-5.1a": {name: "z3-5.1a", cmd: func(f string, t int) []string {
		return []string{"z3-new", fmt.Sprintf("-T:%d", t), "smt.arith.solver=2", f}
	}},
	"z3-5.1r": {name: "z3-5.1r", cmd: func(f string, t int) []string {
		return []string{"z3-new", fmt.Sprintf("-T:%d", t), "smt.random_seed=11", "sat.random_seed=11", "smt.arith.random_initial_value=true", f}
	}},
	"z3-4.8": {name: "z3-4.8", cmd: func(f string, t int) []string { return []string{"z3", fmt.Sprintf("-T:%d", t), f} }},
	"cvc5": {name: "cvc5", pre: "(set-logic ALL)\n", cmd: func(f string, t int) []string {
		return []string{"cvc5", "--produce-models", fmt.Sprintf("--tlimit=%d", t*1000), f}
	}},
}

func runSolver(sp solverSpec, dir, base, query string, timeoutS int, wantModel bool) (result, output string, secs float64) {
	file := filepath.Join(dir, base+"."+sp.name+".smt2")
	body := sp.pre + query + "(check-sat)\n"
	if wantModel {
		body += "(get-model)\n"
	}
	if err := os.WriteFile(file, []byte(body), 0o644); err != nil {
		return "error", err.Error(), 0
	}
	args := sp.cmd(file, timeoutS)
	ctx, cancel := context.WithTimeout(context.Background(), time.Duration(timeoutS+5)*time.Second)
	defer cancel()
	cmd := exec.CommandContext(ctx, args[0], args[1:]...)
	var out bytes.Buffer
	cmd.Stdout = &out
	cmd.Stderr = &out
	t0 := time.Now()
	_ = cmd.Run()
	secs = time.Since(t0).Seconds()
	output = out.String()
	first := strings.TrimSpace(strings.SplitN(output, "\n", 2)[0])
	switch first {
	case "unsat":
		result = "unsat"
	case "sat":
		result = "sat"
	case "unknown":
		result = "unknown"
	case "timeout":
		result = "timeout"
	default:
		if strings.Contains(output, "timeout") || ctx.Err() != nil {
			result = "timeout"
		} else {
			result = "error"
		}
	}
	return
}

type solveOpts struct {
	dir      string
	quickT   int
	slowT    int
	keep     bool
	both     bool // thorough: require a second back end where it answers
	workers  int
	noSecond bool
	only     map[string]bool // if set: discharge only obligations of these clauses
	funcFilter map[string]bool // claim -only
	cache    map[string]*funcResult // claim mode: verify each function once per process
	stability bool // claim mode: must also discharge under a perturbed solver seed, quickly
}

func discharge(vc *VC, obls []*Obligation, opts solveOpts) {
	var wg sync.WaitGroup
	sem := make(chan struct{}, opts.workers)
	for i, o := range obls {
		if opts.only != nil && !opts.only[o.Clause] && o.Kind != "vacuity" && o.Kind != "cover" {
			o.Result, o.Backend = "skipped", ""
			continue
		}
		o.Query = vc.buildQuery(o)
		wg.Add(1)
		sem <- struct{}{}
		go func(i int, o *Obligation) {
			defer wg.Done()
			defer func() { <-sem }()
			base := fmt.Sprintf("%s_%d", sanitize(o.Name), i)
			if len(base) > 120 {
				base = fmt.Sprintf("%s_%d", base[:100], i)
			}
			// first tier: three configurations of z3 5.1 - default, classic simplex core (smt.arith.solver=2), perturbed seed. Solver
			// time on these VCs varies by two orders of magnitude between configurations for no semantic reason; an obligation is
			// discharged when any configuration refutes it. In claim mode (stability) at least two of the three must do so within the
			// (short) claim time-out, so that a later check, which tries all three with a longer time-out, has margin.
			cfgs := []string{"z3-5.1", "z3-5.1a", "z3-5.1r"}
			var res, out string
			if opts.stability {
				nUnsat := 0
				for ci, c := range cfgs {
					r1, o1, s1 := runSolver(solvers[c], opts.dir, base, o.Query, opts.quickT, c == cfgs[0])
					o.Secs += s1
					if r1 == "unsat" {
						nUnsat++
						if res != "unsat" {
							res, out = r1, o1
							o.Backend = c
						}
					} else if res == "" || (r1 == "sat" && res != "unsat") {
						res, out = r1, o1
						o.Backend = c
					}
					if r1 == "sat" {
						break
					}
					if ci == 1 && nUnsat == 0 {
						break // two configurations failed: the two-of-three rule cannot be met any more
					}
				}
				o.Result, o.Output = res, out
				if res == "unsat" && nUnsat < 2 {
					o.Result, o.Output = "unstable", "discharged by only one of three solver configurations within the claim time-out"
					return
				}
			} else {
				for _, c := range cfgs {
					r1, o1, s1 := runSolver(solvers[c], opts.dir, base, o.Query, opts.quickT, true)
					o.Secs += s1
					if res == "" || r1 == "unsat" || r1 == "sat" {
						res, out = r1, o1
						o.Result, o.Backend, o.Output = r1, c, o1
					}
					if r1 == "unsat" || r1 == "sat" {
						break
					}
				}
			}
			if res == "unsat" || res == "sat" {
				if res == "sat" {
					o.Model = out
				}
				if opts.both && res == "unsat" {
					r2, _, s2 := runSolver(solvers["cvc5"], opts.dir, base, o.Query, opts.slowT, false)
					o.Secs += s2
					if r2 == "sat" {
						o.Result = "disagree"
					} else if r2 == "unsat" {
						o.Backend = "z3-5.1+cvc5"
					}
				}
				return
			}
			if opts.noSecond {
				return
			}
			// second tier: z3 4.8 and cvc5 in parallel
			type r struct {
				res, out, be string
				secs         float64
			}
			ch := make(chan r, 2)
			for _, be := range []string{"z3-4.8", "cvc5"} {
				go func(be string) {
					rr, oo, ss := runSolver(solvers[be], opts.dir, base, o.Query, opts.slowT, true)
					ch <- r{rr, oo, be, ss}
				}(be)
			}
			for k := 0; k < 2; k++ {
				x := <-ch
				o.Secs += x.secs
				if x.res == "unsat" || (x.res == "sat" && o.Result != "unsat") {
					o.Result, o.Backend, o.Output = x.res, x.be, x.out
					if x.res == "sat" {
						o.Model = x.out
					}
					if x.res == "unsat" {
						// do not wait for the other
						go func() { <-ch }()
						return
					}
				}
			}
		}(i, o)
	}
	wg.Wait()
	if !opts.keep {
		// remove query files of discharged obligations
		files, _ := filepath.Glob(filepath.Join(opts.dir, "*.smt2"))
		for _, f := range files {
			os.Remove(f)
		}
	}
}
