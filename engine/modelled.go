package main

// Assumed models of standard-library functions (listed in evidence as trusted).

import (
	"fmt"
	"go/ast"
	"go/types"
)

func (vc *VC) callModelled(st *State, o *types.Func, recv *Val, argv []Val, c *ast.CallExpr) ([]Val, bool) {
	key := externKey(o)
	one := func(v Val) ([]Val, bool) { return []Val{v}, true }
	trusted := func() { vc.assumedContracts["stdlib:"+key] = true }
	switch key {
	case "slices.Insert":
		trusted()
		s := argv[0]
		i := argv[1]
		sl, ok := s.Ty.Underlying().(*types.Slice)
		if !ok {
			return nil, false
		}
		es := vc.sortOf(sl.Elem())
		arr, ln, _ := vc.sliceParts(s)
		goal := fmt.Sprintf("(and (<= 0 %s) (<= %s %s))", i.S, i.S, ln)
		vc.emit(st, "bounds", vc.fn.Key+"/bounds", vc.site("bounds"), goal, c.Pos(), "slices.Insert index")
		vc.assume(st, goal)
		var varr, vn string
		if c.Ellipsis.IsValid() {
			v := argv[2]
			a2, l2, _ := vc.sliceParts(v)
			varr, vn = a2, l2
		} else {
			a := vc.eng.sorts.zeroOfSort("(Array Int "+es+")", nil)
			for k, v := range argv[2:] {
				a = fmt.Sprintf("(store %s %d %s)", a, k, v.S)
			}
			varr, vn = a, fmt.Sprint(len(argv)-2)
		}
		na := vc.fresh("ins", "(Array Int "+es+")")
		vc.assume(st, fmt.Sprintf("(forall ((k Int)) (! (= (select %s k) (ite (< k %s) (select %s k) (ite (< k (+ %s %s)) (select %s (- k %s)) (select %s (- k %s))))) :pattern ((select %s k))))",
			na, i.S, arr, i.S, vn, varr, i.S, arr, vn, na))
		norg := vc.fresh("org", "Int")
		vc.assume(st, fmt.Sprintf("(> %s 0)", norg))
		nl := vc.define("ilen", "Int", fmt.Sprintf("(+ %s %s)", ln, vn))
		{
			var single []string
			if !c.Ellipsis.IsValid() {
				for _, v := range argv[2:] {
					single = append(single, v.S)
				}
			}
			iS, lnS, vnS, arrS, varrS := i.S, ln, vn, arr, varr
			vc.sumFacts(st, es, func(ps func(a, n string) string, fv func(v string) string) []string {
				mid := ps(varrS, vnS)
				if single != nil {
					mid = "(+ 0"
					for _, v := range single {
						mid += " " + fv(v)
					}
					mid += ")"
				}
				return []string{
					fmt.Sprintf("(= %s %s)", ps(na, iS), ps(arrS, iS)),
					fmt.Sprintf("(= %s (+ %s %s))", ps(na, fmt.Sprintf("(+ %s %s)", iS, vnS)), ps(na, iS), mid),
					fmt.Sprintf("(= %s (+ %s (- %s %s)))", ps(na, nl), ps(na, fmt.Sprintf("(+ %s %s)", iS, vnS)), ps(arrS, lnS), ps(arrS, iS)),
				}
			})
		}
		return one(Val{S: fmt.Sprintf("(mk_%s %s %s %s)", s.Sort, na, nl, norg), Ty: s.Ty, Sort: s.Sort})
	case "slices.Delete":
		trusted()
		s := argv[0]
		i, j := argv[1], argv[2]
		sl, ok := s.Ty.Underlying().(*types.Slice)
		if !ok {
			return nil, false
		}
		es := vc.sortOf(sl.Elem())
		arr, ln, org := vc.sliceParts(s)
		goal := fmt.Sprintf("(and (<= 0 %s) (<= %s %s) (<= %s %s))", i.S, i.S, j.S, j.S, ln)
		vc.emit(st, "bounds", vc.fn.Key+"/bounds", vc.site("bounds"), goal, c.Pos(), "slices.Delete range")
		vc.assume(st, goal)
		na := vc.fresh("del", "(Array Int "+es+")")
		vc.assume(st, fmt.Sprintf("(forall ((k Int)) (! (= (select %s k) (ite (< k %s) (select %s k) (select %s (+ k (- %s %s))))) :pattern ((select %s k))))",
			na, i.S, arr, arr, j.S, i.S, na))
		nl := vc.define("dlen", "Int", fmt.Sprintf("(- %s (- %s %s))", ln, j.S, i.S))
		vc.sumFacts(st, es, func(ps func(a, n string) string, fv func(v string) string) []string {
			return []string{
				fmt.Sprintf("(= %s %s)", ps(na, i.S), ps(arr, i.S)),
				fmt.Sprintf("(= %s (+ %s (- %s %s)))", ps(na, nl), ps(arr, i.S), ps(arr, ln), ps(arr, j.S)),
			}
		})
		return one(Val{S: fmt.Sprintf("(mk_%s %s %s %s)", s.Sort, na, nl, org), Ty: s.Ty, Sort: s.Sort})
	case "slices.Clone":
		trusted()
		s := argv[0]
		if _, ok := s.Ty.Underlying().(*types.Slice); !ok {
			return nil, false
		}
		arr, ln, org := vc.sliceParts(s)
		norg := vc.fresh("org", "Int")
		vc.assume(st, fmt.Sprintf("(and (> %s 0) (not (= %s %s)))", norg, norg, org))
		vc.noteFreshOrigin(st, norg)
		return one(Val{S: fmt.Sprintf("(mk_%s %s %s %s)", s.Sort, arr, ln, norg), Ty: s.Ty, Sort: s.Sort})
	case "bytes.Equal":
		trusted()
		// r == (len(a) == len(b) && forall k in [0, len(a)) :: a[k] == b[k])
		a, b := argv[0], argv[1]
		if _, ok := a.Ty.Underlying().(*types.Slice); !ok {
			return nil, false
		}
		aa, al, _ := vc.sliceParts(a)
		ba, bl, _ := vc.sliceParts(b)
		r := vc.fresh("beq", "Bool")
		vc.assume(st, fmt.Sprintf("(= %s (and (= %s %s) (forall ((k Int)) (=> (and (<= 0 k) (< k %s)) (= (select %s k) (select %s k))))))", r, al, bl, al, aa, ba))
		return one(Val{S: r, Ty: types.Typ[types.Bool], Sort: "Bool"})
	case "binary.bigEndian.Uint16", "binary.bigEndian.Uint32", "binary.bigEndian.Uint64":
		trusted()
		n := map[string]int64{"binary.bigEndian.Uint16": 2, "binary.bigEndian.Uint32": 4, "binary.bigEndian.Uint64": 8}[key]
		b := argv[0]
		arr, ln, _ := vc.sliceParts(b)
		goal := fmt.Sprintf("(>= %s %d)", ln, n)
		vc.emit(st, "bounds", vc.fn.Key+"/bounds", vc.site("bounds"), goal, c.Pos(), "BigEndian.UintN needs n bytes")
		vc.assume(st, goal)
		t := o.Type().(*types.Signature).Results().At(0).Type()
		// fast path: slice view of a small byte array variable  x[:]  => the value itself
		if se, ok := c.Args[0].(*ast.SliceExpr); ok && se.Low == nil && se.High == nil {
			if at, ok := vc.typeOf(se.X).Underlying().(*types.Array); ok && isByteArraySmall(at) && at.Len() == n {
				v := vc.eval(st, se.X)
				return one(Val{S: v.S, Ty: t, Sort: "Int"})
			}
		}
		v := Val{S: vc.define("be", "Int", vc.beValue(arr, "0", n)), Ty: t, Sort: "Int"}
		vc.byteFacts(st, arr, "0", n)
		return one(v)
	case "binary.bigEndian.PutUint16", "binary.bigEndian.PutUint32", "binary.bigEndian.PutUint64":
		trusted()
		vc.bytesCtx++
		defer func() { vc.bytesCtx-- }()
		n := map[string]int64{"binary.bigEndian.PutUint16": 2, "binary.bigEndian.PutUint32": 4, "binary.bigEndian.PutUint64": 8}[key]
		// destination must be an lvalue-ish expression; handle x[:] of small array, and slice lvalues / reslices
		dst := c.Args[0]
		v := argv[1]
		if se, ok := dst.(*ast.SliceExpr); ok {
			if at, ok := vc.typeOf(se.X).Underlying().(*types.Array); ok && isByteArraySmall(at) && at.Len() == n && se.Low == nil && se.High == nil {
				vc.assign(st, se.X, Val{S: v.S, Ty: vc.typeOf(se.X), Sort: "Int"})
				return nil, true
			}
		}
		vc.putBytes(st, dst, argv[0], v.S, n, c)
		return nil, true
	case "sort.Slice":
		trusted()
		// sort.Slice(x, less): x becomes a permutation of itself, ordered by the relation named in the closure's contract
		if !vc.isLvalue(c.Args[0]) {
			return nil, false
		}
		sv := vc.eval(st, c.Args[0])
		sl, ok := sv.Ty.Underlying().(*types.Slice)
		if !ok {
			return nil, false
		}
		lit, _ := c.Args[1].(*ast.FuncLit)
		var rel string
		if lit != nil {
			for k, fi := range vc.eng.funcs {
				if fi.Lit == lit {
					if ct := vc.eng.specs.Contracts[k]; ct != nil {
						rel = ct.Options["less-relation"]
						vc.assumedContracts["closure "+k+" as sort order (verified separately)"] = true
					}
				}
			}
		}
		es := vc.sortOf(sl.Elem())
		arr, ln, org := vc.sliceParts(sv)
		na := vc.fresh("sorted", "(Array Int "+es+")")
		perm := vc.fresh("perm", "(Array Int Int)")
		inv := vc.fresh("pinv", "(Array Int Int)")
		vc.assume(st, fmt.Sprintf("(forall ((k Int)) (! (=> (and (<= 0 k) (< k %s)) (and (<= 0 (select %s k)) (< (select %s k) %s) (= (select %s k) (select %s (select %s k))) (= (select %s (select %s k)) k))) :pattern ((select %s k)) :pattern ((select %s k))))",
			ln, perm, perm, ln, na, arr, perm, inv, perm, na, perm))
		vc.assume(st, fmt.Sprintf("(forall ((k Int)) (! (=> (and (<= 0 k) (< k %s)) (and (<= 0 (select %s k)) (< (select %s k) %s) (= (select %s (select %s k)) k))) :pattern ((select %s k)) :pattern ((select %s k))))",
			ln, inv, inv, ln, perm, inv, inv, arr))
		nv := Val{S: fmt.Sprintf("(mk_%s %s %s %s)", sv.Sort, na, ln, org), Ty: sv.Ty, Sort: sv.Sort}
		// consequence of being a permutation: pairwise distinctness is preserved
		vc.assume(st, fmt.Sprintf("(=> (forall ((i Int) (j Int)) (=> (and (<= 0 i) (< i j) (< j %s)) (not (= (select %s i) (select %s j))))) (forall ((i Int) (j Int)) (! (=> (and (<= 0 i) (< i j) (< j %s)) (not (= (select %s i) (select %s j)))) :pattern ((select %s i) (select %s j)))))",
			ln, arr, arr, ln, na, na, na, na))
		if rel != "" {
			if p := vc.eng.specs.Preds[rel]; p != nil && len(p.Params) == 2 {
				// not less(x'[j], x'[i]) for i < j
				e := &SQuant{Forall: true, Vars: []SQVar{{Name: "i_", Type: "int"}, {Name: "j_", Type: "int"}},
					Body: &SBin{Op: "==>", L: &SBin{Op: "&&", L: &SBin{Op: "&&", L: &SBin{Op: "<=", L: &SInt{V: "0"}, R: &SIdent{Name: "i_"}}, R: &SBin{Op: "<", L: &SIdent{Name: "i_"}, R: &SIdent{Name: "j_"}}}, R: &SBin{Op: "<", L: &SIdent{Name: "j_"}, R: &SCall{Fun: "len", Args: []SExpr{&SIdent{Name: "sorted_"}}}}},
						R: &SUn{Op: "!", X: &SCall{Fun: rel, Args: []SExpr{&SIndex{X: &SIdent{Name: "sorted_"}, I: &SIdent{Name: "j_"}}, &SIndex{X: &SIdent{Name: "sorted_"}, I: &SIdent{Name: "i_"}}}}}}}
				t := vc.specBool(st, nil, e, nil, map[string]Val{"sorted_": nv})
				vc.assume(st, t)
			} else {
				vc.unsupportedf(c.Pos(), "sort.Slice: unknown less-relation %q", rel)
			}
		} else {
			vc.notes = append(vc.notes, vc.eng.pos(c.Pos())+": sort.Slice without a less-relation: result is an arbitrary permutation")
		}
		vc.assignSliceBase(st, c.Args[0], nv)
		return nil, true
	case "errors.As":
		trusted()
		// target is &x with x of pointer type T: result = errAs_T(err); x havocked (done by out-param handling)
		errv := argv[0]
		tt := vc.typeOf(c.Args[1])
		pt, ok := tt.Underlying().(*types.Pointer)
		if !ok {
			return nil, false
		}
		return one(Val{S: vc.errAsTerm(st, errv.S, pt.Elem()), Ty: types.Typ[types.Bool], Sort: "Bool"})
	case "fmt.Errorf", "errors.New":
		trusted()
		// a fresh, non-nil, uncategorised error
		vc.needDyntype()
		r := vc.fresh("ferr", "Int")
		vc.assume(st, fmt.Sprintf("(and (> %s 0) (not (select %s %s)) (= (dyntype %s) %d))", r, st.alloc, r, r, vc.eng.sorts.tid(types.Typ[types.UnsafePointer])))
		st.alloc = vc.define("alloc", "(Array Int Bool)", fmt.Sprintf("(store %s %s true)", st.alloc, r))
		return one(Val{S: r, Ty: types.Universe.Lookup("error").Type(), Sort: "Int"})
	case "fmt.Sprintf", "fmt.Sprint", "fmt.Sprintln", "strings.Join", "strings.Repeat", "debug.Stack":
		t := o.Type().(*types.Signature).Results().At(0).Type()
		return one(vc.havocVal(st, t, "s"))
	case "math.Ceil":
		trusted()
		x := argv[0]
		vc.noteAssumption("math.Ceil modelled on exact reals")
		return one(Val{S: fmt.Sprintf("(to_real (- (to_int (- %s))))", x.S), Ty: types.Typ[types.Float64], Sort: "Real"})
	case "math.Floor":
		trusted()
		x := argv[0]
		return one(Val{S: fmt.Sprintf("(to_real (to_int %s))", x.S), Ty: types.Typ[types.Float64], Sort: "Real"})
	}
	return nil, false
}

func (vc *VC) byteFacts(st *State, arr, off string, n int64) {}

// putBytes: store the n big-endian bytes of v at the start of dst
func (vc *VC) putBytes(st *State, dstE ast.Expr, dst Val, v string, n int64, c *ast.CallExpr) {
	_, ok := dst.Ty.Underlying().(*types.Slice)
	if !ok {
		vc.unsupportedf(c.Pos(), "PutUintN destination")
		return
	}
	arr, ln, org := vc.sliceParts(dst)
	goal := fmt.Sprintf("(>= %s %d)", ln, n)
	vc.emit(st, "bounds", vc.fn.Key+"/bounds", vc.site("bounds"), goal, c.Pos(), "BigEndian.PutUintN needs n bytes")
	vc.assume(st, goal)
	na := arr
	for i := int64(0); i < n; i++ {
		na = fmt.Sprintf("(store %s %d (mod (div %s %s) 256))", na, i, v, pow256(n-1-i))
	}
	na = vc.define("put", "(Array Int Int)", na)
	vc.beIdentity(st, na, v, n)
	nv := Val{S: fmt.Sprintf("(mk_%s %s %s %s)", dst.Sort, na, ln, org), Ty: dst.Ty, Sort: dst.Sort}
	// write back through the destination expression
	switch d := dstE.(type) {
	case *ast.SliceExpr:
		vc.writeSliceView(st, d, nv, c)
	default:
		if vc.isLvalue(dstE) {
			vc.assignSliceBase(st, dstE, nv)
		} else {
			vc.unsupportedf(c.Pos(), "PutUintN into non-lvalue")
		}
	}
}

// writeSliceView: the contents of the view d (= base[lo:hi]) are now nv's contents; propagate to base
func (vc *VC) writeSliceView(st *State, d *ast.SliceExpr, nv Val, c *ast.CallExpr) {
	baseT := vc.typeOf(d.X)
	lo := "0"
	if d.Low != nil {
		lo = vc.eval(st, d.Low).S
	}
	narr, nln, _ := vc.sliceParts(nv)
	switch u := baseT.Underlying().(type) {
	case *types.Slice:
		base := vc.eval(st, d.X)
		barr, bln, borg := vc.sliceParts(base)
		es := vc.sortOf(u.Elem())
		a := vc.arrayBlit(st, es, barr, lo, narr, "0", nln)
		vc.assignSliceBase(st, d.X, Val{S: fmt.Sprintf("(mk_%s %s %s %s)", base.Sort, a, bln, borg), Ty: base.Ty, Sort: base.Sort})
	case *types.Array:
		if isByteArraySmall(u) {
			vc.unsupportedf(c.Pos(), "partial write into small byte array")
			return
		}
		base := vc.eval(st, d.X)
		es := vc.sortOf(u.Elem())
		a := vc.arrayBlit(st, es, base.S, lo, narr, "0", nln)
		vc.assign(st, d.X, Val{S: a, Ty: baseT, Sort: base.Sort})
	default:
		vc.unsupportedf(c.Pos(), "write through view of %s", baseT)
	}
}
