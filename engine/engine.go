package main

// Engine: package loading, function index, type helpers, spec-level declarations.

import (
	"fmt"
	"go/ast"
	"go/token"
	"go/types"
	"os"
	"path/filepath"
	"regexp"
	"sort"
	"strings"

	"golang.org/x/tools/go/packages"
)

type FuncInfo struct {
	Key  string
	Obj  *types.Func
	Sig  *types.Signature
	Body *ast.BlockStmt
	Decl *ast.FuncDecl
	Lit  *ast.FuncLit
	File string
	Pos  token.Pos
}

type Engine struct {
	repo      string
	pkg       *packages.Package
	fset      *token.FileSet
	info      *types.Info
	specs     *SpecDB
	funcs     map[string]*FuncInfo
	funcOrder []string
	sorts     *SortReg
	strs      map[string]int
	namedTypes []types.Type
	closureOf map[string]*ast.FuncLit
	inlineCost map[string]bool
	axiomSeen map[string]bool
	globalConstInit map[*types.Var]string
	pkgVars   []*types.Var
	immutableGlobals map[*types.Var]bool
	mutableFields    map[string]bool // heap keys (Type.field) assigned somewhere in the package (field census)
	ufuns     map[string]*UFun
	trackTouched bool
	slabTypes map[string]bool
	implCache map[string][]types.Type
	measures  []string
}

func loadEngine(repo string) (*Engine, error) {
	cfg := &packages.Config{Mode: packages.LoadAllSyntax, Dir: repo, BuildFlags: []string{"-tags=verif"}, Env: os.Environ()}
	pkgs, err := packages.Load(cfg, ".")
	if err != nil {
		return nil, err
	}
	if len(pkgs) != 1 {
		return nil, fmt.Errorf("expected one package, got %d", len(pkgs))
	}
	p := pkgs[0]
	if len(p.Errors) > 0 {
		return nil, fmt.Errorf("package errors: %v", p.Errors[0])
	}
	eng := &Engine{repo: repo, pkg: p, fset: p.Fset, info: p.TypesInfo, funcs: map[string]*FuncInfo{}, strs: map[string]int{},
		closureOf: map[string]*ast.FuncLit{}, inlineCost: map[string]bool{}, globalConstInit: map[*types.Var]string{},
		immutableGlobals: map[*types.Var]bool{}, ufuns: map[string]*UFun{}, slabTypes: map[string]bool{}, implCache: map[string][]types.Type{}}
	eng.sorts = newSortReg(p.Types.Path())
	specs, err := loadSpecs(repo)
	if err != nil {
		return nil, err
	}
	eng.specs = specs
	eng.indexFuncs()
	eng.indexTypes()
	eng.indexGlobals()
	eng.indexFieldWrites()
	eng.synthesizeImplViews()
	if err := eng.checkGhostNames(); err != nil {
		return nil, err
	}
	if dumpFields {
		for _, t := range eng.namedTypes {
			if st, ok := t.Underlying().(*types.Struct); ok {
				for i := 0; i < st.NumFields(); i++ {
					k := t.(*types.Named).Obj().Name() + "." + st.Field(i).Name()
					if !eng.mutableFields[k] {
						fmt.Println("immutable:", k)
					}
				}
			}
		}
	}
	if err := eng.loadUFuns(); err != nil {
		return nil, err
	}
	for _, n := range []string{"ArrayDataSlab", "ArrayMetaDataSlab", "MapDataSlab", "MapMetaDataSlab", "StorableSlab"} {
		eng.slabTypes[n] = true
	}
	_, eng.trackTouched = specs.Ghosts["touched"]
	eng.findMeasures()
	return eng, nil
}

func (e *Engine) pos(p token.Pos) string {
	ps := e.fset.Position(p)
	return fmt.Sprintf("%s:%d", shortFile(ps.Filename), ps.Line)
}

func (e *Engine) inPkg(n *types.Named) bool {
	return n.Obj().Pkg() == e.pkg.Types
}

func (e *Engine) isSlabType(n *types.Named) bool { return e.slabTypes[n.Obj().Name()] }

func (e *Engine) strID(s string) int {
	if id, ok := e.strs[s]; ok {
		return id
	}
	id := len(e.strs) + 1
	e.strs[s] = id
	return id
}

func (e *Engine) indexFuncs() {
	for _, f := range e.pkg.Syntax {
		fname := e.fset.Position(f.Pos()).Filename
		for _, d := range f.Decls {
			fd, ok := d.(*ast.FuncDecl)
			if !ok || fd.Body == nil {
				continue
			}
			obj, ok := e.info.Defs[fd.Name].(*types.Func)
			if !ok {
				continue
			}
			key := funcKey(obj)
			fi := &FuncInfo{Key: key, Obj: obj, Sig: obj.Type().(*types.Signature), Body: fd.Body, Decl: fd, File: fname, Pos: fd.Pos()}
			if _, dup := e.funcs[key]; dup {
				continue // e.g. multiple init
			}
			e.funcs[key] = fi
			e.funcOrder = append(e.funcOrder, key)
			// closures: Outer#k in source order
			k := 0
			ast.Inspect(fd.Body, func(n ast.Node) bool {
				if lit, ok := n.(*ast.FuncLit); ok {
					k++
					ck := fmt.Sprintf("%s#%d", key, k)
					sig, _ := e.info.Types[lit].Type.(*types.Signature)
					if sig != nil {
						e.funcs[ck] = &FuncInfo{Key: ck, Sig: sig, Body: lit.Body, Lit: lit, File: fname, Pos: lit.Pos()}
						e.funcOrder = append(e.funcOrder, ck)
					}
				}
				return true
			})
		}
	}
}

func (e *Engine) indexTypes() {
	sc := e.pkg.Types.Scope()
	names := sc.Names()
	sort.Strings(names)
	for _, n := range names {
		if tn, ok := sc.Lookup(n).(*types.TypeName); ok {
			if tn.IsAlias() {
				continue
			}
			if nt, ok := tn.Type().(*types.Named); ok && nt.TypeParams().Len() == 0 {
				e.namedTypes = append(e.namedTypes, tn.Type())
			}
		}
	}
}

func (e *Engine) indexGlobals() {
	sc := e.pkg.Types.Scope()
	assigned := map[*types.Var]bool{}
	for _, f := range e.pkg.Syntax {
		for _, d := range f.Decls {
			fd, ok := d.(*ast.FuncDecl)
			if !ok || fd.Body == nil {
				continue
			}
			setter := fd.Name.Name == "setThreshold" && fd.Recv == nil
			ast.Inspect(fd.Body, func(n ast.Node) bool {
				mark := func(x ast.Expr) {
					for {
						switch y := x.(type) {
						case *ast.SelectorExpr:
							x = y.X
							continue
						case *ast.IndexExpr:
							x = y.X
							continue
						case *ast.ParenExpr:
							x = y.X
							continue
						}
						break
					}
					if id, ok := x.(*ast.Ident); ok {
						if v, ok := e.info.ObjectOf(id).(*types.Var); ok && v.Parent() == sc && !setter {
							assigned[v] = true
						}
					}
				}
				switch y := n.(type) {
				case *ast.AssignStmt:
					for _, l := range y.Lhs {
						mark(l)
					}
				case *ast.IncDecStmt:
					mark(y.X)
				case *ast.UnaryExpr:
					if y.Op == token.AND {
						mark(y.X)
					}
				}
				return true
			})
		}
	}
	for _, n := range sc.Names() {
		if v, ok := sc.Lookup(n).(*types.Var); ok {
			e.pkgVars = append(e.pkgVars, v)
			if !assigned[v] {
				e.immutableGlobals[v] = true
			}
		}
	}
	// constant initialisers of never-assigned variables
	for _, f := range e.pkg.Syntax {
		for _, d := range f.Decls {
			gd, ok := d.(*ast.GenDecl)
			if !ok || gd.Tok != token.VAR {
				continue
			}
			for _, sp := range gd.Specs {
				vs := sp.(*ast.ValueSpec)
				for i, nm := range vs.Names {
					v, ok := e.info.Defs[nm].(*types.Var)
					if !ok || !e.immutableGlobals[v] || i >= len(vs.Values) {
						continue
					}
					if v.Name() == "targetThreshold" || v.Name() == "minThreshold" {
						continue
					}
					switch init := vs.Values[i].(type) {
					case *ast.CompositeLit:
						if len(init.Elts) == 0 {
							if _, isMap := v.Type().Underlying().(*types.Map); !isMap {
								e.globalConstInit[v] = e.sorts.zero(v.Type())
							}
						}
					default:
						if tv, ok := e.info.Types[init]; ok && tv.Value != nil {
							if s, ok := constToTerm(tv.Value, v.Type(), nil); ok {
								_ = s
								// mutable from tests (e.g. collision limit): do not pin
							}
						}
					}
				}
			}
		}
	}
}

// closedImplementers: if iface has an unexported method, its implementers are exactly the in-package ones.
func (e *Engine) closedImplementers(t types.Type) []types.Type {
	it, ok := t.Underlying().(*types.Interface)
	if !ok {
		return nil
	}
	key := types.TypeString(t, nil)
	if r, ok := e.implCache[key]; ok {
		return r
	}
	closed := false
	for i := 0; i < it.NumMethods(); i++ {
		if !it.Method(i).Exported() {
			closed = true
		}
	}
	var out []types.Type
	if closed {
		for _, nt := range e.namedTypes {
			if types.IsInterface(nt) {
				continue
			}
			if types.Implements(nt, it) {
				out = append(out, nt)
			} else if pt := types.NewPointer(nt); types.Implements(pt, it) {
				out = append(out, pt)
			}
		}
		if out == nil {
			out = []types.Type{}
		}
	}
	e.implCache[key] = out
	if !closed {
		return nil
	}
	return out
}

// ifaceContract finds the contract `iface I.M` for method m called through interface type t
// (also through interfaces that embed I).
func (e *Engine) ifaceContract(t types.Type, m *types.Func) *Contract {
	// by declaring interface of the method
	if recv := m.Type().(*types.Signature).Recv(); recv != nil {
		if n, ok := types.Unalias(recv.Type()).(*types.Named); ok {
			if ct := e.specs.Contracts[n.Obj().Name()+"."+m.Name()]; ct != nil && ct.Kind == "iface" {
				return ct
			}
		}
	}
	if n, ok := types.Unalias(t).(*types.Named); ok {
		if ct := e.specs.Contracts[n.Obj().Name()+"."+m.Name()]; ct != nil && ct.Kind == "iface" {
			return ct
		}
	}
	return nil
}

func (e *Engine) pureExternal(o *types.Func) bool {
	if o.Pkg() == nil {
		return true
	}
	switch o.Pkg().Path() {
	case "fmt", "errors", "strings", "math", "slices", "sort", "bytes", "encoding/binary", "strconv", "reflect", "runtime/debug", "math/bits", "unicode/utf8", "encoding/hex":
		return true
	}
	return false
}

func (e *Engine) lookupType(name string) types.Type {
	name = strings.TrimSpace(name)
	if strings.HasPrefix(name, "*") {
		t := e.lookupType(name[1:])
		if t == nil {
			return nil
		}
		return types.NewPointer(t)
	}
	if strings.HasPrefix(name, "[") && !strings.HasPrefix(name, "[]") {
		if k := strings.Index(name, "]"); k > 1 {
			var n int64
			if _, err := fmt.Sscanf(name[1:k], "%d", &n); err == nil {
				t := e.lookupType(name[k+1:])
				if t == nil {
					return nil
				}
				return types.NewArray(t, n)
			}
		}
	}
	if strings.HasPrefix(name, "[]") {
		t := e.lookupType(name[2:])
		if t == nil {
			return nil
		}
		return types.NewSlice(t)
	}
	switch name {
	case "int":
		return types.Typ[types.Int]
	case "uint64":
		return types.Typ[types.Uint64]
	case "uint32":
		return types.Typ[types.Uint32]
	case "uint16":
		return types.Typ[types.Uint16]
	case "uint8", "byte":
		return types.Typ[types.Uint8]
	case "bool":
		return types.Typ[types.Bool]
	case "string":
		return types.Typ[types.String]
	case "error":
		return types.Universe.Lookup("error").Type()
	case "any":
		return types.NewInterfaceType(nil, nil)
	}
	if tn, ok := e.pkg.Types.Scope().Lookup(name).(*types.TypeName); ok {
		return tn.Type()
	}
	return nil
}

// ---------- ghosts and uninterpreted spec functions ----------

// spec sorts: int, bool, ref, set[T], map[K]V, seq..., or Go type names
func (e *Engine) specSort(ty string) string {
	ty = strings.TrimSpace(ty)
	switch ty {
	case "int", "Int":
		return "Int"
	case "bool", "Bool":
		return "Bool"
	case "ref", "Ref":
		return "Int"
	}
	if strings.HasPrefix(ty, "set[") && strings.HasSuffix(ty, "]") {
		return "(Array " + e.specSort(ty[4:len(ty)-1]) + " Bool)"
	}
	if strings.HasPrefix(ty, "map[") {
		d := 0
		for i := 3; i < len(ty); i++ {
			if ty[i] == '[' {
				d++
			} else if ty[i] == ']' {
				d--
				if d == 0 {
					return "(Array " + e.specSort(ty[4:i]) + " " + e.specSort(ty[i+1:]) + ")"
				}
			}
		}
	}
	if t := e.lookupType(ty); t != nil {
		return e.sorts.sortOf(t)
	}
	return "Int"
}

func (e *Engine) specType(ty string) types.Type {
	ty = strings.TrimSpace(ty)
	switch ty {
	case "int", "Int":
		return types.Typ[types.UntypedInt]
	case "bool", "Bool":
		return types.Typ[types.Bool]
	case "ref", "Ref":
		return nil
	}
	if strings.HasPrefix(ty, "set[") || strings.HasPrefix(ty, "map[") {
		return nil
	}
	return e.lookupType(ty)
}

func (e *Engine) typeOfSort(s string) types.Type {
	switch s {
	case "Int":
		return types.Typ[types.UntypedInt]
	case "Bool":
		return types.Typ[types.Bool]
	}
	for _, nt := range e.namedTypes {
		if e.sorts.sortOf(nt) == s {
			return nt
		}
	}
	return nil
}

func (e *Engine) ghostSort(name string) string {
	if g, ok := e.specs.Ghosts[name]; ok {
		return e.specSort(g.Type)
	}
	if name == "touched" {
		return "(Array Int Bool)"
	}
	return "Int"
}

func (e *Engine) ghostType(name string) types.Type {
	if g, ok := e.specs.Ghosts[name]; ok {
		return e.specType(g.Type)
	}
	return nil
}

// ufun declarations are written as:  ghost fn name(a T, b U) R   -- stored in Ghosts with Type "fn(...) R"
func (e *Engine) loadUFuns() error {
	for name, g := range e.specs.Ghosts {
		if !strings.HasPrefix(g.Type, "fn(") {
			continue
		}
		j := matchParen(g.Type, 2)
		if j < 0 {
			return fmt.Errorf("bad ghost fn %s", name)
		}
		uf := &UFun{Name: name, Params: parseTypedParams(g.Type[3:j]), Ret: strings.TrimSpace(g.Type[j+1:])}
		e.ufuns[name] = uf
		delete(e.specs.Ghosts, name)
	}
	return nil
}


// findMeasures: ghost fns used as first argument of sum(...) anywhere in the contract files
func (e *Engine) findMeasures() {
	files, _ := filepath.Glob(filepath.Join(e.repo, "verif_contracts_*.go"))
	seen := map[string]bool{}
	re := regexp.MustCompile(`sum\((\w+),`)
	for _, f := range files {
		b, err := os.ReadFile(f)
		if err != nil {
			continue
		}
		for _, m := range re.FindAllStringSubmatch(string(b), -1) {
			_, isGhost := e.specs.Ghosts[m[1]]
			_, isPred := e.specs.Preds[m[1]]
			if (e.ufuns[m[1]] != nil || isGhost || isPred) && !seen[m[1]] {
				seen[m[1]] = true
				e.measures = append(e.measures, m[1])
			}
		}
	}
	sort.Strings(e.measures)
}

// indexFieldWrites is a census of field writes in the package: a heap key Type.field that is never the target of an
// assignment, ++/--, address-of, array slicing, pointer-receiver method call on a struct-valued field, or whole-struct store
// keeps its value in every already allocated object (composite literals only initialise fresh objects).
func (e *Engine) indexFieldWrites() {
	e.mutableFields = map[string]bool{}
	owner := map[*types.Var]*types.Named{}
	for _, t := range e.namedTypes {
		nt := t.(*types.Named)
		if st, ok := nt.Underlying().(*types.Struct); ok {
			for i := 0; i < st.NumFields(); i++ {
				owner[st.Field(i)] = nt
			}
		}
	}
	markAll := func(t types.Type) {
		if p, ok := t.Underlying().(*types.Pointer); ok {
			t = p.Elem()
		}
		nt, ok := t.(*types.Named)
		if !ok {
			return
		}
		if st, ok := nt.Underlying().(*types.Struct); ok {
			for i := 0; i < st.NumFields(); i++ {
				e.mutableFields[nt.Obj().Name()+"."+st.Field(i).Name()] = true
			}
		}
	}
	var markChain func(x ast.Expr)
	markChain = func(x ast.Expr) {
		for {
			switch y := x.(type) {
			case *ast.ParenExpr:
				x = y.X
				continue
			case *ast.IndexExpr:
				// slices and maps are values in the model (contents included), so an element write is a write of the field
				x = y.X
				continue
			case *ast.SliceExpr:
				x = y.X
				continue
			case *ast.StarExpr:
				if t := e.info.TypeOf(y); t != nil {
					markAll(t)
				}
				return
			case *ast.SelectorExpr:
				if sel, ok := e.info.Selections[y]; ok && sel.Kind() == types.FieldVal {
					if fv, ok := sel.Obj().(*types.Var); ok {
						if nt := owner[fv]; nt != nil {
							e.mutableFields[nt.Obj().Name()+"."+fv.Name()] = true
						}
						// promoted through embedded fields: the embedded field itself is a value inside the object
						if len(sel.Index()) > 1 {
							t := sel.Recv()
							for _, ix := range sel.Index()[:len(sel.Index())-1] {
								if p, ok := t.Underlying().(*types.Pointer); ok {
									t = p.Elem()
								}
								if st, ok := t.Underlying().(*types.Struct); ok {
									f := st.Field(ix)
									if nt := owner[f]; nt != nil {
										e.mutableFields[nt.Obj().Name()+"."+f.Name()] = true
									}
									t = f.Type()
								}
							}
						}
					}
					// a write to x.f.g also changes the value of field f when f is a struct value (not through a pointer)
					if t := e.info.TypeOf(y.X); t != nil {
						if _, isPtr := t.Underlying().(*types.Pointer); isPtr {
							return
						}
					}
					x = y.X
					continue
				}
				return
			}
			return
		}
	}
	for _, f := range e.pkg.Syntax {
		ast.Inspect(f, func(n ast.Node) bool {
			switch y := n.(type) {
			case *ast.AssignStmt:
				for _, l := range y.Lhs {
					if y.Tok == token.DEFINE {
						continue
					}
					markChain(l)
					if t := e.info.TypeOf(l); t != nil {
						if _, isSt := t.Underlying().(*types.Struct); isSt {
							if _, isSel := l.(*ast.SelectorExpr); !isSel {
								if _, isId := l.(*ast.Ident); !isId {
									markAll(t)
								}
							}
						}
					}
				}
			case *ast.IncDecStmt:
				markChain(y.X)
			case *ast.RangeStmt:
				if y.Tok == token.ASSIGN {
					if y.Key != nil {
						markChain(y.Key)
					}
					if y.Value != nil {
						markChain(y.Value)
					}
				}
			case *ast.UnaryExpr:
				if y.Op == token.AND {
					if _, isLit := y.X.(*ast.CompositeLit); !isLit {
						markChain(y.X)
						if t := e.info.TypeOf(y.X); t != nil {
							if _, isSt := t.Underlying().(*types.Struct); isSt {
								markAll(t)
							}
						}
					}
				}
			case *ast.SliceExpr:
				if t := e.info.TypeOf(y.X); t != nil {
					if _, isArr := t.Underlying().(*types.Array); isArr {
						markChain(y.X)
					}
				}
			case *ast.CallExpr:
				// a slice or map handed to any call (delete, copy, sort, encoders, ...) may have its contents changed
				for _, a := range y.Args {
					if t := e.info.TypeOf(a); t != nil {
						switch t.Underlying().(type) {
						case *types.Slice, *types.Map:
							markChain(a)
						}
					}
				}
				if se, ok := y.Fun.(*ast.SelectorExpr); ok {
					if sel, ok := e.info.Selections[se]; ok && sel.Kind() == types.MethodVal {
						if fn, ok := sel.Obj().(*types.Func); ok {
							if sig, ok := fn.Type().(*types.Signature); ok && sig.Recv() != nil {
								if _, ptrRecv := sig.Recv().Type().(*types.Pointer); ptrRecv {
									if t := e.info.TypeOf(se.X); t != nil {
										if _, isPtr := t.Underlying().(*types.Pointer); !isPtr {
											markChain(se.X) // implicit &x.f
										}
									}
								}
							}
						}
					}
				}
			}
			return true
		})
	}
}

// fieldIsRef: heap key "T.f" or "T.f.g" names a field of pointer or interface type
func (e *Engine) fieldIsRef(key string) bool {
	parts := strings.Split(key, ".")
	if len(parts) < 2 {
		return false
	}
	t := e.lookupType(parts[0])
	if t == nil {
		return false
	}
	for _, f := range parts[1:] {
		st, ok := t.Underlying().(*types.Struct)
		if !ok {
			return false
		}
		var ft types.Type
		for i := 0; i < st.NumFields(); i++ {
			if st.Field(i).Name() == f {
				ft = st.Field(i).Type()
			}
		}
		if ft == nil {
			return false
		}
		t = ft
	}
	switch t.Underlying().(type) {
	case *types.Pointer, *types.Interface:
		return true
	}
	return false
}

// synthesizeImplViews: behavioural subtyping. For an interface-method contract `iface I.m` with a `conform` clause, every listed
// in-package implementer T gets a view "T.m@impl:I" whose contract is the interface contract (receiver name `recv`), with the loop
// invariants, lemma uses and entry assumptions of T.m's own contract. Verifying the view checks T.m's body against what callers
// through the interface assume.
func (e *Engine) synthesizeImplViews() {
	for _, k := range append([]string(nil), e.specs.Order...) {
		ict := e.specs.Contracts[k]
		if ict == nil || ict.Kind != "iface" || len(ict.Conform) == 0 {
			continue
		}
		dot := strings.Index(k, ".")
		if dot < 0 {
			continue
		}
		iname, mname := k[:dot], k[dot+1:]
		it := e.lookupType(iname)
		if it == nil {
			continue
		}
		iface, ok := it.Underlying().(*types.Interface)
		if !ok {
			continue
		}
		want := map[string]bool{}
		all := false
		for _, c := range ict.Conform {
			if c == "all" {
				all = true
			}
			want[c] = true
		}
		for _, nt := range e.namedTypes {
			if types.IsInterface(nt) {
				continue
			}
			n, ok := nt.(*types.Named)
			if !ok {
				continue
			}
			if !types.Implements(nt, iface) && !types.Implements(types.NewPointer(nt), iface) {
				continue
			}
			tn := n.Obj().Name()
			if !all && !want[tn] {
				continue
			}
			fkey := tn + "." + mname
			fi := e.funcs[fkey]
			if fi == nil || fi.Body == nil {
				continue // promoted from an embedded field, or declared elsewhere
			}
			if fi.Sig.Recv() != nil {
				if _, isPtr := fi.Sig.Recv().Type().Underlying().(*types.Pointer); !isPtr {
					continue // value receivers are boxed when seen through the interface: not supported by the view
				}
			}
			vkey := fkey + "@impl:" + iname
			if e.specs.Contracts[vkey] != nil {
				continue
			}
			cp := *ict
			cp.Key = vkey
			cp.Kind = "func"
			cp.RecvName = "recv"
			cp.ImplOf = k
			cp.Conform = nil
			cp.Trusted = false
			cp.Loops = nil
			cp.Uses = nil
			cp.Assumes = nil
			if own := e.specs.Contracts[fkey]; own != nil && own.Kind == "func" {
				cp.Loops = own.Loops
				cp.Uses = own.Uses
				cp.Assumes = own.Assumes
				cp.AltRecv = own.RecvName
				cp.AltParams = own.Params
				if len(cp.Serves) == 0 {
					cp.Serves = own.Serves
				}
				if cp.Options == nil {
					cp.Options = own.Options
				}
			}
			e.specs.Contracts[vkey] = &cp
			e.specs.Order = append(e.specs.Order, vkey)
		}
	}
}

// checkGhostNames: a ghost variable must not share its name with a parameter, result or local of a function under contract - in a
// clause of that function the name would denote the Go variable at some program points and the ghost at others.
func (e *Engine) checkGhostNames() error {
	for key, ct := range e.specs.Contracts {
		if ct.Kind != "func" {
			continue
		}
		base := key
		if i := strings.IndexAny(base, "@"); i >= 0 {
			base = base[:i]
		}
		fi := e.funcs[base]
		if fi == nil || fi.Body == nil {
			continue
		}
		// only names that the contract's clauses actually mention can be confused
		var text strings.Builder
		add := func(cs []*Clause) {
			for _, c := range cs {
				text.WriteString(c.Src + "\n")
			}
		}
		add(ct.Requires)
		add(ct.Ensures)
		add(ct.Exits)
		add(ct.Assumes)
		add(ct.AtCuts)
		for _, bs := range ct.Befores {
			add(bs)
		}
		for _, lp := range ct.Loops {
			add(lp.Invariants)
		}
		mentioned := func(name string) bool {
			re := regexp.MustCompile(`(^|[^A-Za-z0-9_.])` + regexp.QuoteMeta(name) + `([^A-Za-z0-9_]|$)`)
			return re.MatchString(text.String())
		}
		var clash string
		ast.Inspect(fi.Body, func(n ast.Node) bool {
			if id, ok := n.(*ast.Ident); ok && clash == "" {
				if _, isDef := e.info.Defs[id].(*types.Var); isDef {
					if g, isGhost := e.specs.Ghosts[id.Name]; isGhost && !strings.HasPrefix(strings.TrimSpace(g.Type), "fn(") && mentioned(id.Name) {
						clash = id.Name
					}
				}
			}
			return clash == ""
		})
		if clash != "" {
			return fmt.Errorf("ghost %q has the name of a variable of %s (under contract): rename the ghost", clash, base)
		}
	}
	return nil
}
