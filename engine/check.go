package main

// `govc check` / `govc claim`: property-level driver, claimed-set bookkeeping, evidence, violation reporting.

import (
	"go/ast"
	"go/types"
	"os/exec"
	"encoding/json"
	"flag"
	"fmt"
	"os"
	"path/filepath"
	"sort"
	"strconv"
	"strings"
	"time"
)

var verifRoot = envOr("GOVC_ROOT", "/verif")

type claimFile struct {
	Property string   `json:"property"`
	Clauses  []string `json:"clauses"`
	Note     string   `json:"note"`
}

type knownFinding struct {
	Property string `json:"property"`
	Clause   string `json:"clause"`
	What     string `json:"what"`
	Status   string `json:"status"` // "open" | "fixed: <commit>"
}

func loadClaims(prop string) (*claimFile, error) {
	b, err := os.ReadFile(filepath.Join(verifRoot, "claims", prop+".json"))
	if err != nil {
		return nil, err
	}
	var c claimFile
	if err := json.Unmarshal(b, &c); err != nil {
		return nil, err
	}
	return &c, nil
}

// loadKnownFindings reads /verif/KNOWN_FINDINGS: one finding per line,
//   open: property=<id> clause=<obligation clause> <what fails>
//   fixed: property=<id> <commit> <what failed>          (suppresses nothing)
func loadKnownFindings() []knownFinding {
	b, err := os.ReadFile(filepath.Join(verifRoot, "KNOWN_FINDINGS"))
	if err != nil {
		return nil
	}
	var out []knownFinding
	for _, l := range strings.Split(string(b), "\n") {
		l = strings.TrimSpace(l)
		if !strings.HasPrefix(l, "open:") {
			continue
		}
		k := knownFinding{Status: "open"}
		rest := strings.Fields(l[5:])
		var what []string
		for _, f := range rest {
			switch {
			case strings.HasPrefix(f, "property="):
				k.Property = f[9:]
			case strings.HasPrefix(f, "clause="):
				k.Clause = f[7:]
			default:
				what = append(what, f)
			}
		}
		k.What = strings.Join(what, " ")
		out = append(out, k)
	}
	return out
}

// clauseServes: does an obligation belong to property prop?
func clauseServes(eng *Engine, o *Obligation, fr *funcResult, prop string) bool {
	ct := eng.specs.Contracts[fr.Key]
	if ct == nil {
		return false
	}
	fnServes := false
	for _, s := range ct.Serves {
		if s == prop {
			fnServes = true
		}
	}
	// tagged ensures clauses belong to their tags only
	if o.Kind == "postcondition" {
		// clause name ends with /ensuresN
		i := strings.LastIndex(o.Clause, "/ensures")
		if i >= 0 {
			n, _ := strconv.Atoi(o.Clause[i+8:])
			if n >= 1 && n <= len(ct.Ensures) {
				tags := ct.Ensures[n-1].Tags
				if len(tags) > 0 {
					for _, t := range tags {
						if t == prop {
							return true
						}
					}
					return false
				}
			}
		}
	}
	if o.Kind == "assert" {
		if i := strings.LastIndex(o.Clause, "/atcut"); i >= 0 {
			n, _ := strconv.Atoi(o.Clause[i+6:])
			if n >= 1 && n <= len(ct.AtCuts) {
				if tags := ct.AtCuts[n-1].Tags; len(tags) > 0 {
					for _, t := range tags {
						if t == prop {
							return true
						}
					}
					return false
				}
			}
		}
		// Func/before:Callee[#n]/assertK
		if i := strings.Index(o.Clause, "/before:"); i >= 0 {
			rest := o.Clause[i+8:]
			if j := strings.LastIndex(rest, "/assert"); j >= 0 {
				n, _ := strconv.Atoi(rest[j+7:])
				bs := ct.Befores[rest[:j]]
				if n >= 1 && n <= len(bs) {
					if tags := bs[n-1].Tags; len(tags) > 0 {
						for _, t := range tags {
							if t == prop {
								return true
							}
						}
						return false
					}
				}
			}
		}
	}
	if o.Kind == "postcondition" {
		if i := strings.LastIndex(o.Clause, "/exit"); i >= 0 {
			n, _ := strconv.Atoi(o.Clause[i+5:])
			if n >= 1 && n <= len(ct.Exits) {
				if tags := ct.Exits[n-1].Tags; len(tags) > 0 {
					for _, t := range tags {
						if t == prop {
							return true
						}
					}
					return false
				}
			}
		}
	}
	return fnServes
}

func functionsServing(eng *Engine, prop string) []string {
	var keys []string
	for _, k := range eng.specs.Order {
		ct := eng.specs.Contracts[k]
		if ct.Kind != "func" || ct.Trusted {
			continue
		}
		ok := false
		for _, s := range ct.Serves {
			if s == prop {
				ok = true
			}
		}
		for _, en := range ct.Ensures {
			for _, t := range en.Tags {
				if t == prop {
					ok = true
				}
			}
		}
		for _, en := range ct.Exits {
			for _, t := range en.Tags {
				if t == prop {
					ok = true
				}
			}
		}
		for _, en := range ct.AtCuts {
			for _, t := range en.Tags {
				if t == prop {
					ok = true
				}
			}
		}
		for _, bs := range ct.Befores {
			for _, en := range bs {
				for _, t := range en.Tags {
					if t == prop {
						ok = true
					}
				}
			}
		}
		if ok {
			keys = append(keys, k)
		}
	}
	return keys
}

type clauseStatus struct {
	Name       string
	Func       string
	Instances  int
	Discharged int
	Worst      *Obligation
	Src        string
	Kind       string
}

type propRun struct {
	prop     string
	funcs    []*funcResult
	clauses  map[string]*clauseStatus
	order    []string
	lemmaRes []*lemmaResult
	wall     float64
}

func runProperty(eng *Engine, prop string, opts solveOpts) *propRun {
	return runPropertyFiltered(eng, prop, opts, nil)
}

// runPropertyFiltered: when only != nil, obligations of other clauses are generated but not sent to the solvers
func runPropertyFiltered(eng *Engine, prop string, opts solveOpts, only map[string]bool) *propRun {
	t0 := time.Now()
	pr := &propRun{prop: prop, clauses: map[string]*clauseStatus{}}
	keys := functionsServing(eng, prop)
	for _, k := range keys {
		if opts.funcFilter != nil && !opts.funcFilter[k] {
			continue
		}
		o2 := opts
		if only != nil {
			o2.only = only
		}
		var fr *funcResult
		if opts.cache != nil && only == nil {
			if c, ok := opts.cache[k]; ok {
				fr = c
			} else {
				fr = verifyOne(eng, k, o2)
				opts.cache[k] = fr
			}
		} else {
			fr = verifyOne(eng, k, o2)
		}
		pr.funcs = append(pr.funcs, fr)
		broken := fr.Vacuity == "vacuous" || len(fr.Unsupported) > 0
		for _, o := range fr.Obls {
			if !clauseServes(eng, o, fr, prop) {
				continue
			}
			cs := pr.clauses[o.Clause]
			if cs == nil {
				cs = &clauseStatus{Name: o.Clause, Func: fr.Key, Src: o.Src, Kind: o.Kind}
				pr.clauses[o.Clause] = cs
				pr.order = append(pr.order, o.Clause)
			}
			cs.Instances++
			if o.Result == "unsat" && !broken {
				cs.Discharged++
			} else if cs.Worst == nil || (o.Result == "sat" && cs.Worst.Result != "sat") {
				cs.Worst = o
			}
		}
		if broken {
			// a function whose contract is contradictory or which left the supported subset proves nothing
			name := fr.Key + "/verifiable"
			o := &Obligation{Name: name, Clause: name, Kind: "verifiable", Func: fr.Key, Result: "error",
				Output: "vacuity=" + fr.Vacuity + "\nunsupported:\n" + strings.Join(fr.Unsupported, "\n")}
			pr.clauses[name] = &clauseStatus{Name: name, Func: fr.Key, Instances: 1, Worst: o, Kind: "verifiable"}
			pr.order = append(pr.order, name)
		} else {
			name := fr.Key + "/verifiable"
			pr.clauses[name] = &clauseStatus{Name: name, Func: fr.Key, Instances: 1, Discharged: 1, Kind: "verifiable"}
			pr.order = append(pr.order, name)
		}
	}
	// structural censuses serving the property
	for _, cs := range eng.specs.Census {
		if cs.Prop != prop || (opts.funcFilter != nil && !opts.funcFilter["census:"+cs.Kind]) {
			continue
		}
		name := "census:" + cs.Kind
		found := eng.censusOf(cs.Kind)
		var extra []string
		for _, f := range found {
			if !cs.Allowed[f] {
				extra = append(extra, f)
			}
		}
		st := &clauseStatus{Name: name, Func: "package", Instances: 1, Kind: "census", Src: cs.Src}
		if len(extra) == 0 {
			st.Discharged = 1
		} else {
			st.Worst = &Obligation{Name: name, Clause: name, Kind: "census", Func: "package", Result: "error",
				Output: "range-over-map loop(s) in function(s) that the census does not list (order independence not shown): " + strings.Join(extra, ", ")}
		}
		pr.clauses[name] = st
		pr.order = append(pr.order, name)
	}
	// lemmas serving the property
	for _, lm := range eng.specs.Lemmas {
		if opts.funcFilter != nil && !opts.funcFilter["lemma:"+lm.Name] {
			continue
		}
		serves := false
		for _, s := range lm.Serves {
			if s == prop {
				serves = true
			}
		}
		if !serves {
			continue
		}
		lr := verifyLemma(eng, lm, opts)
		pr.lemmaRes = append(pr.lemmaRes, lr)
		for _, o := range lr.Obls {
			cs := pr.clauses[o.Clause]
			if cs == nil {
				cs = &clauseStatus{Name: o.Clause, Func: "lemma " + lm.Name, Src: o.Src, Kind: "lemma"}
				pr.clauses[o.Clause] = cs
				pr.order = append(pr.order, o.Clause)
			}
			cs.Instances++
			if o.Result == "unsat" {
				cs.Discharged++
			} else if cs.Worst == nil {
				cs.Worst = o
			}
		}
	}
	pr.wall = time.Since(t0).Seconds()
	return pr
}

func cmdClaim(args []string) {
	fs := flag.NewFlagSet("claim", flag.ExitOnError)
	prop := fs.String("p", "", "property id or 'all'")
	onlyF := fs.String("only", "", "comma-separated function keys: re-claim only these (other clauses of the claim files are kept)")
	repo := fs.String("repo", envOr("GOVC_REPO", "/repo"), "repository")
	fs.Parse(args)
	eng, err := loadEngine(*repo)
	if err != nil {
		fmt.Fprintln(os.Stderr, "load:", err)
		os.Exit(2)
	}
	props := []string{*prop}
	if *prop == "all" {
		props = allProps(eng)
	}
	dir := mkScratch()
	defer os.RemoveAll(dir)
	os.MkdirAll(filepath.Join(verifRoot, "claims"), 0o755)
	cache := map[string]*funcResult{}
	onlySet := map[string]bool{}
	for _, f := range strings.Split(*onlyF, ",") {
		if f = strings.TrimSpace(f); f != "" {
			onlySet[f] = true
		}
	}
	for _, p := range props {
		// claim only what discharges comfortably inside the quick budget
		opts := solveOpts{dir: dir, quickT: 2, slowT: 2, workers: 8, stability: true, noSecond: true, cache: cache}
		if len(onlySet) > 0 {
			opts.funcFilter = onlySet
		}
		pr := runProperty(eng, p, opts)
		var cl []string
		nskip := 0
		if len(onlySet) > 0 {
			// keep existing clauses of other functions
			if old, err := loadClaims(p); err == nil {
				for _, c := range old.Clauses {
					fn := c
					if i := strings.Index(c, "/"); i >= 0 {
						fn = c[:i]
					}
					if !onlySet[fn] {
						cl = append(cl, c)
					}
				}
			}
		}
		for _, name := range pr.order {
			cs := pr.clauses[name]
			if cs.Discharged == cs.Instances {
				cl = append(cl, name)
			} else {
				nskip++
				fmt.Printf("  not claimed: %s (%d/%d) %s\n", name, cs.Discharged, cs.Instances, worstResult(cs))
			}
		}
		sort.Strings(cl)
		for _, name := range pr.order {
			cs := pr.clauses[name]
			if cs.Kind == "postcondition" && strings.Contains(name, "/ensures") {
				if cs.Discharged == cs.Instances {
					provedPost[name] = true
				} else {
					unprovedPost[name] = true
				}
			}
		}
		cf := claimFile{Property: p, Clauses: cl, Note: "clauses discharged on the unchanged tree; regenerated only by `govc claim` (never at check time)"}
		b, _ := json.MarshalIndent(cf, "", " ")
		os.WriteFile(filepath.Join(verifRoot, "claims", p+".json"), b, 0o644)
		fmt.Printf("%s: %d clauses claimed, %d not claimed, %.1fs\n", p, len(cl), nskip, pr.wall)
	}
	if *prop == "all" && len(onlySet) == 0 {
		// post-conditions that no property run discharged: they are still assumed at the call sites of their functions
		var up []string
		for n := range unprovedPost {
			if !provedPost[n] {
				up = append(up, n)
			}
		}
		sort.Strings(up)
		b, _ := json.MarshalIndent(map[string]any{"note": "post-condition clauses of verified (non-trusted) contracts that were generated but not discharged on the unchanged tree; callers assume them", "clauses": up}, "", " ")
		os.WriteFile(filepath.Join(verifRoot, "claims", "_unproved_postconditions.json"), b, 0o644)
		fmt.Printf("unproved post-conditions: %d\n", len(up))
	}
}

var provedPost = map[string]bool{}
var unprovedPost = map[string]bool{}

func worstResult(cs *clauseStatus) string {
	if cs.Worst == nil {
		return ""
	}
	return cs.Worst.Result + " " + cs.Worst.Name
}

func allProps(eng *Engine) []string {
	seen := map[string]bool{}
	for _, k := range eng.specs.Order {
		ct := eng.specs.Contracts[k]
		for _, s := range ct.Serves {
			seen[s] = true
		}
		for _, en := range ct.Ensures {
			for _, t := range en.Tags {
				seen[t] = true
			}
		}
	}
	for _, lm := range eng.specs.Lemmas {
		for _, s := range lm.Serves {
			seen[s] = true
		}
	}
	var out []string
	for k := range seen {
		out = append(out, k)
	}
	sort.Strings(out)
	return out
}

var sumLemmaStatus string

func cmdCheck(args []string) {
	fs := flag.NewFlagSet("check", flag.ExitOnError)
	prop := fs.String("p", "", "property id")
	tier := fs.String("tier", envOr("VERIF_TIER", "quick"), "quick|thorough")
	repo := fs.String("repo", envOr("GOVC_REPO", "/repo"), "repository")
	fs.Parse(args)
	if *prop == "" {
		usage()
	}
	seed, _ := strconv.Atoi(envOr("VERIF_SEED", "0"))
	t0 := time.Now()
	evPath := filepath.Join(verifRoot, "evidence", *prop+".json")
	os.MkdirAll(filepath.Dir(evPath), 0o755)
	os.Remove(evPath)
	fail := func(msg string) {
		// a checker failure is not a property verdict: report loudly, exit 2
		fmt.Fprintln(os.Stderr, "govc check: "+msg)
		os.Exit(2)
	}
	claims, err := loadClaims(*prop)
	if err != nil {
		fail("no claims file for " + *prop + ": " + err.Error())
	}
	eng, err := loadEngine(*repo)
	violations := 0
	var vioLines []string
	replayDir := filepath.Join(verifRoot, "replays", *prop)
	os.RemoveAll(replayDir) // replay files always describe the current run
	os.MkdirAll(replayDir, 0o755)
	if err != nil {
		// the package no longer loads / contracts no longer resolve: every claimed clause is undecided
		rp := filepath.Join(replayDir, "load.json")
		writeJSON(rp, map[string]any{"property": *prop, "obligation": "load", "reason": err.Error()})
		fmt.Printf("VIOLATION property=%s replay=%s no-failing-input-found\n", *prop, rp)
		writeEvidence(evPath, *prop, *tier, seed, nil, claims, 0, 0, 1, time.Since(t0).Seconds(), nil)
		os.Exit(1)
	}
	dir := mkScratch()
	defer os.RemoveAll(dir)
	opts := solveOpts{dir: dir, quickT: 4, slowT: 40, workers: 16}
	if *tier == "thorough" {
		opts.slowT = 60
		opts.both = true
	}
	claimed := map[string]bool{}
	for _, c := range claims.Clauses {
		claimed[c] = true
	}
	known := loadKnownFindings()
	only := map[string]bool{}
	for c := range claimed {
		only[c] = true
	}
	for _, k := range known {
		if k.Property == *prop {
			only[k.Clause] = true
		}
	}
	// the prefix-sum axioms the VCs rely on are themselves proved by induction on every run
	if out, err := exec.Command(filepath.Join(verifRoot, "lemmas", "run.sh")).CombinedOutput(); err != nil {
		os.RemoveAll(dir)
		fail("prefix-sum lemmas not proved: " + strings.TrimSpace(string(out)))
	} else {
		lines := strings.Split(strings.TrimSpace(string(out)), "\n")
		sumLemmaStatus = lines[len(lines)-1]
	}
	pr := runPropertyFiltered(eng, *prop, opts, only)
	nObl, nDis := 0, 0
	for _, c := range claims.Clauses {
		cs := pr.clauses[c]
		if cs == nil {
			// clause vanished (function or contract removed)
			violations++
			rp := filepath.Join(replayDir, sanitize(c)+".json")
			writeJSON(rp, map[string]any{"property": *prop, "obligation": c, "reason": "claimed obligation can no longer be generated from the current source"})
			vioLines = append(vioLines, fmt.Sprintf("VIOLATION property=%s replay=%s no-failing-input-found", *prop, rp))
			nObl++
			continue
		}
		nObl += cs.Instances
		nDis += cs.Discharged
		if cs.Discharged != cs.Instances {
			violations++
			rp := filepath.Join(replayDir, sanitize(c)+".json")
			confirmed := reportViolation(eng, *prop, cs, rp)
			line := fmt.Sprintf("VIOLATION property=%s replay=%s", *prop, rp)
			if !confirmed {
				line += " no-failing-input-found"
			}
			vioLines = append(vioLines, line)
		}
	}
	// known findings: listed obligations that still fail are reported as such, never as violations
	for _, k := range known {
		if k.Property != *prop || !strings.HasPrefix(k.Status, "open") {
			continue
		}
		cs := pr.clauses[k.Clause]
		if cs != nil && cs.Discharged != cs.Instances {
			fmt.Printf("KNOWN-FINDING: property=%s %s: %s\n", *prop, k.Clause, k.What)
		}
	}
	if *tier == "thorough" {
		v2 := thoroughExtras(eng, *prop, pr)
		violations += len(v2)
		vioLines = append(vioLines, v2...)
	}
	for _, l := range vioLines {
		fmt.Println(l)
	}
	writeEvidence(evPath, *prop, *tier, seed, pr, claims, nObl, nDis, violations, time.Since(t0).Seconds(), eng)
	fmt.Printf("govc check %s (%s): %d claimed clauses, %d/%d obligations discharged, %d violation(s), %.1fs\n", *prop, *tier, len(claims.Clauses), nDis, nObl, violations, time.Since(t0).Seconds())
	if violations > 0 {
		os.RemoveAll(dir)
		os.Exit(1)
	}
}

func writeJSON(path string, v any) {
	b, _ := json.MarshalIndent(v, "", " ")
	os.WriteFile(path, b, 0o644)
}

// reportViolation writes the replay file; returns true when a counterexample was replayed on the real code.
func reportViolation(eng *Engine, prop string, cs *clauseStatus, path string) bool {
	o := cs.Worst
	rec := map[string]any{"property": prop, "obligation": cs.Name, "function": cs.Func, "kind": cs.Kind, "clause_source": cs.Src}
	if o != nil {
		rec["failed_instance"] = o.Name
		rec["position"] = o.Pos
		rec["solver_result"] = o.Result
		rec["backend"] = o.Backend
		out := o.Output
		if len(out) > 20000 {
			out = out[:20000] + "\n...[truncated]"
		}
		rec["solver_output"] = out
	}
	confirmed := false
	if o != nil && o.Result == "sat" {
		if test, ok := tryReplay(eng, cs, o); ok {
			rec["replay_test"] = test.Source
			rec["replay_result"] = test.Result
			rec["failing_input"] = test.Input
			confirmed = test.Confirmed
		}
	}
	rec["confirmed_on_real_code"] = confirmed
	writeJSON(path, rec)
	return confirmed
}

func writeEvidence(path, prop, tier string, seed int, pr *propRun, claims *claimFile, nObl, nDis, violations int, wall float64, eng *Engine) {
	cov := map[string]any{}
	cov["obligations"] = nObl
	cov["discharged"] = nDis
	cov["checker_cmd"] = fmt.Sprintf("/verif/bin/govc check -p %s -tier %s", prop, tier)
	trusted := []string{"VC generator /verif/engine (govc)", "go/types (x/tools v0.29.0 loader)", "SMT solvers z3 5.1.0 / z3 4.8.12 / cvc5 1.0"}
	assumptions := []string{}
	if pr != nil {
		var fns []map[string]any
		byBackend := map[string]int{}
		solverS := 0.0
		var samples []map[string]any
		var unclaimed []string
		assumedSet := map[string]bool{}
		asmSet := map[string]bool{}
		inl := map[string]bool{}
		claimed := map[string]bool{}
		for _, c := range claims.Clauses {
			claimed[c] = true
		}
		for _, fr := range pr.funcs {
			nOK := 0
			for _, o := range fr.Obls {
				solverS += o.Secs
				if o.Result == "unsat" {
					nOK++
					byBackend[o.Backend]++
				}
			}
			fns = append(fns, map[string]any{"function": fr.Key, "obligations": len(fr.Obls), "discharged": nOK, "vacuity_guard": fr.Vacuity, "reachable_return_sites": fr.ReachableReturns, "seconds": round2(fr.Secs), "outside_subset": fr.Unsupported})
			for _, a := range fr.Assumed {
				assumedSet[a] = true
			}
			for _, a := range fr.Assumptions {
				asmSet[a] = true
			}
			for _, a := range fr.Inlined {
				inl[a] = true
			}
			for i, o := range fr.Obls {
				if i < 2 && len(samples) < 12 {
					samples = append(samples, map[string]any{"obligation": o.Name, "kind": o.Kind, "clause": o.Src, "at": o.Pos, "answer": o.Result, "backend": o.Backend, "smt_bytes": len(o.Query)})
				}
			}
		}
		for _, lr := range pr.lemmaRes {
			for _, o := range lr.Obls {
				solverS += o.Secs
				if o.Result == "unsat" {
					byBackend[o.Backend]++
				}
				if len(samples) < 16 {
					samples = append(samples, map[string]any{"obligation": o.Name, "kind": "lemma", "clause": o.Src, "answer": o.Result, "backend": o.Backend, "smt_bytes": len(o.Query)})
				}
			}
		}
		for _, name := range pr.order {
			cs := pr.clauses[name]
			if !claimed[name] {
				unclaimed = append(unclaimed, fmt.Sprintf("%s (%d/%d discharged)", name, cs.Discharged, cs.Instances))
			}
		}
		cov["functions_under_contract"] = fns
		cov["by_backend"] = byBackend
		cov["solver_seconds"] = round2(solverS)
		cov["samples"] = samples
		cov["claimed_clauses"] = len(claims.Clauses)
		cov["generated_but_not_claimed"] = unclaimed
		cov["inlined_without_contract"] = keysOf(inl)
		var lem []string
		for _, lr := range pr.lemmaRes {
			lem = append(lem, fmt.Sprintf("%s: %d/%d", lr.Name, lr.Discharged, len(lr.Obls)))
		}
		cov["lemmas"] = lem
		for _, a := range keysOf(assumedSet) {
			trusted = append(trusted, "assumed contract: "+a)
		}
		// post-conditions of called (verified) contracts that are not discharged anywhere: assumed at those call sites
		if b, err := os.ReadFile(filepath.Join(verifRoot, "claims", "_unproved_postconditions.json")); err == nil {
			var up struct{ Clauses []string }
			if json.Unmarshal(b, &up) == nil {
				called := map[string]bool{}
				for _, fr := range pr.funcs {
					for _, c := range fr.Called {
						called[c] = true
					}
				}
				for _, c := range up.Clauses {
					fn := c
					if i := strings.Index(c, "/"); i >= 0 {
						fn = c[:i]
					}
					if called[fn] {
						trusted = append(trusted, "post-condition assumed at call sites but not discharged: "+c)
					} else if j := strings.Index(fn, "@impl:"); j >= 0 {
						// conformance view T.m@impl:I of the interface contract I.m
						if d := strings.LastIndex(fn[:j], "."); d >= 0 {
							if called[fn[j+6:]+"."+fn[d+1:j]] {
								trusted = append(trusted, "interface contract assumed at call sites, not discharged for this implementer: "+c)
							}
						}
					}
				}
			}
		}
		assumptions = append(assumptions, keysOf(asmSet)...)
	}
	assumptions = append(assumptions, standingAssumptions(prop)...)
	cov["trusted_base"] = trusted
	if sumLemmaStatus != "" {
		cov["prefix_sum_axioms"] = sumLemmaStatus + " (base and step VCs of every prefix-sum axiom and of every ground sum fact the engine emits; /verif/lemmas/gen.py)"
	}
	ev := map[string]any{
		"property_id": prop, "tier": tier, "seed": seed, "level": "proof",
		"coverage": cov, "assumptions": assumptions, "wall_s": round2(wall), "violations": violations,
	}
	writeJSON(path, ev)
}

func round2(x float64) float64 { return float64(int(x*100+0.5)) / 100 }

func keysOf(m map[string]bool) []string {
	var out []string
	for k := range m {
		out = append(out, k)
	}
	sort.Strings(out)
	return out
}

func standingAssumptions(prop string) []string {
	return []string{
		"A1 slice ownership: two live slices never write one backing array (contents have value semantics; capacity not modelled)",
		"A2 caller-supplied callbacks (iteration functions, comparators, hash input providers) do not write atree-internal fields",
		"integers are mathematical; every + - * and narrowing conversion carries a discharged no-wrap obligation (kind arith), later obligations are proved assuming earlier ones hold",
		"termination is not proved",
		"allocation failure, error message text, string contents, fmt side effects are not modelled",
	}
}

func cmdSelftest(args []string) { runSelftest(args) }

// ---- mutation support: which claimed clauses notice a change of one Go function (tools/mutation_run.py)

func baseKey(k string) string {
	if i := strings.IndexAny(k, "@#"); i >= 0 {
		return k[:i]
	}
	return k
}

func allClaimed() map[string][]string {
	out := map[string][]string{}
	files, _ := filepath.Glob(filepath.Join(verifRoot, "claims", "C*.json"))
	for _, f := range files {
		p := strings.TrimSuffix(filepath.Base(f), ".json")
		if c, err := loadClaims(p); err == nil {
			for _, cl := range c.Clauses {
				out[cl] = append(out[cl], p)
			}
		}
	}
	return out
}

// cmdInliners writes claims/_inliners.json: contract-less helper -> functions under contract whose VCs inline its body.
func cmdInliners(args []string) {
	fs := flag.NewFlagSet("inliners", flag.ExitOnError)
	repo := fs.String("repo", envOr("GOVC_REPO", "/repo"), "repository")
	fs.Parse(args)
	eng, err := loadEngine(*repo)
	if err != nil {
		fmt.Fprintln(os.Stderr, "load:", err)
		os.Exit(2)
	}
	dir := mkScratch()
	defer os.RemoveAll(dir)
	opts := solveOpts{dir: dir, quickT: 1, slowT: 1, workers: 16, only: map[string]bool{}}
	inl := map[string][]string{}
	for _, k := range eng.specs.Order {
		ct := eng.specs.Contracts[k]
		if ct.Kind != "func" || ct.Trusted {
			continue
		}
		fr := verifyOne(eng, k, opts)
		for _, h := range fr.Inlined {
			inl[h] = append(inl[h], k)
		}
	}
	writeJSON(filepath.Join(verifRoot, "claims", "_inliners.json"), inl)
	fmt.Printf("%d helpers inlined somewhere\n", len(inl))
}

func cmdMutcheck(args []string) {
	fs := flag.NewFlagSet("mutcheck", flag.ExitOnError)
	fn := fs.String("f", "", "Go function (T.m or f)")
	repo := fs.String("repo", envOr("GOVC_REPO", "/repo"), "repository")
	fs.Parse(args)
	eng, err := loadEngine(*repo)
	if err != nil {
		fmt.Println("MUT load-error", err)
		os.Exit(3)
	}
	claimed := allClaimed()
	only := map[string]bool{}
	for c := range claimed {
		only[c] = true
	}
	var keys []string
	for _, k := range eng.specs.Order {
		ct := eng.specs.Contracts[k]
		if ct.Kind == "func" && !ct.Trusted && baseKey(k) == *fn {
			keys = append(keys, k)
		}
	}
	if len(keys) == 0 {
		var inl map[string][]string
		if b, err := os.ReadFile(filepath.Join(verifRoot, "claims", "_inliners.json")); err == nil {
			json.Unmarshal(b, &inl)
		}
		keys = inl[*fn]
	}
	if len(keys) == 0 {
		fmt.Println("MUT no-contract")
		return
	}
	dir := mkScratch()
	defer os.RemoveAll(dir)
	opts := solveOpts{dir: dir, quickT: 4, slowT: 20, workers: 16, only: only}
	caught := 0
	nClaimed := 0
	for _, k := range keys {
		fr := verifyOne(eng, k, opts)
		broken := fr.Vacuity == "vacuous" || len(fr.Unsupported) > 0
		seen := map[string]bool{}
		bad := map[string]string{}
		for _, o := range fr.Obls {
			if claimed[o.Clause] == nil {
				continue
			}
			seen[o.Clause] = true
			if o.Result != "unsat" || broken {
				bad[o.Clause] = o.Result
			}
		}
		if broken && claimed[k+"/verifiable"] != nil {
			bad[k+"/verifiable"] = "unsupported"
		}
		// claimed clauses of this key that were not generated at all
		for c := range claimed {
			if strings.HasPrefix(c, k+"/") && !seen[c] && !strings.HasSuffix(c, "/verifiable") {
				bad[c] = "vanished"
			}
		}
		for c := range claimed {
			if strings.HasPrefix(c, k+"/") {
				nClaimed++
			}
		}
		for _, c := range keysOfStr(bad) {
			caught++
			fmt.Printf("MUT caught %s [%s] %s\n", c, bad[c], strings.Join(claimed[c], ","))
		}
	}
	fmt.Printf("MUT keys=%d claimed=%d caught=%d\n", len(keys), nClaimed, caught)
}

func keysOfStr(m map[string]string) []string {
	var out []string
	for k := range m {
		out = append(out, k)
	}
	sort.Strings(out)
	return out
}

// censusOf lists the functions (keys as in contracts; closures are attributed to their enclosing function) of the package's
// non-test files that contain a construct of the given kind. Kinds: map-range.
func (e *Engine) censusOf(kind string) []string {
	seen := map[string]bool{}
	for key, fi := range e.funcs {
		if strings.Contains(key, "#") || fi.Body == nil {
			continue
		}
		ast.Inspect(fi.Body, func(n ast.Node) bool {
			rs, ok := n.(*ast.RangeStmt)
			if !ok || kind != "map-range" {
				return true
			}
			if t := e.info.TypeOf(rs.X); t != nil {
				if _, isMap := t.Underlying().(*types.Map); isMap {
					seen[key] = true
				}
			}
			return true
		})
	}
	var out []string
	for k := range seen {
		out = append(out, k)
	}
	sort.Strings(out)
	return out
}
