package main

import "fmt"

func cmdCheck(args []string)    { fmt.Println("TODO") }
func cmdClaim(args []string)    { fmt.Println("TODO") }
func cmdReplay(args []string)   { fmt.Println("TODO") }
func cmdSelftest(args []string) { fmt.Println("TODO") }
