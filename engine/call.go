package main

// Calls: builtins, modelled library functions, contracts, inlining, interface dispatch, havoc.

import (
	"regexp"
	"sort"
	"fmt"
	"go/ast"
	"go/token"
	"go/types"
	"strings"
)

func (vc *VC) evalCall(st *State, c *ast.CallExpr) []Val {
	// conversion?
	if tv, ok := vc.eng.info.Types[c.Fun]; ok && tv.IsType() {
		return []Val{vc.evalConversion(st, vc.subst(tv.Type), c.Args[0], c.Pos())}
	}
	fun := c.Fun
	for {
		if p, ok := fun.(*ast.ParenExpr); ok {
			fun = p.X
			continue
		}
		break
	}
	// generic instantiation syntax f[T](...)
	if ix, ok := fun.(*ast.IndexExpr); ok {
		if tv, ok := vc.eng.info.Types[ix.X]; ok {
			if _, isSig := tv.Type.Underlying().(*types.Signature); isSig {
				fun = ix.X
			}
		}
	}
	switch f := fun.(type) {
	case *ast.Ident:
		obj := vc.eng.info.ObjectOf(f)
		switch o := obj.(type) {
		case *types.Builtin:
			return vc.evalBuiltin(st, o.Name(), c)
		case *types.Func:
			return vc.callStatic(st, o, nil, c.Args, c)
		case *types.Var:
			return vc.callFuncValue(st, vc.eval(st, f), c)
		}
	case *ast.SelectorExpr:
		// package-qualified function
		if id, ok := f.X.(*ast.Ident); ok {
			if _, isPkg := vc.eng.info.ObjectOf(id).(*types.PkgName); isPkg {
				if o, ok := vc.eng.info.ObjectOf(f.Sel).(*types.Func); ok {
					return vc.callStatic(st, o, nil, c.Args, c)
				}
				if _, ok := vc.eng.info.ObjectOf(f.Sel).(*types.Var); ok {
					return vc.callFuncValue(st, vc.eval(st, f), c)
				}
			}
		}
		sel := vc.eng.info.Selections[f]
		if sel != nil {
			switch sel.Kind() {
			case types.MethodVal:
				m := sel.Obj().(*types.Func)
				recvE := f.X
				recvT := vc.typeOf(recvE)
				if types.IsInterface(recvT) {
					rv := vc.eval(st, recvE)
					// embedded-field path to the interface value? (only direct supported)
					return vc.callInterface(st, rv, recvT, m, c)
				}
				// concrete receiver: compute receiver value (follow embedded path, auto address/deref)
				return vc.callMethod(st, recvE, sel, m, c)
			case types.FieldVal:
				// call of a func-typed field
				return vc.callFuncValue(st, vc.eval(st, f), c)
			}
		}
	case *ast.FuncLit:
		// immediately-invoked closure
		vc.unsupportedf(c.Pos(), "immediately invoked closure")
	}
	vc.unsupportedf(c.Pos(), "call of %T", fun)
	return vc.havocResults(st, c)
}

func (vc *VC) havocResults(st *State, c *ast.CallExpr) []Val {
	t := vc.typeOf(c)
	switch tt := t.(type) {
	case *types.Tuple:
		var out []Val
		for i := 0; i < tt.Len(); i++ {
			out = append(out, vc.havocVal(st, tt.At(i).Type(), "r"))
		}
		return out
	}
	if t == nil || t == types.Typ[types.Invalid] {
		return nil
	}
	if tv, ok := vc.eng.info.Types[c]; ok && tv.IsVoid() {
		return nil
	}
	return []Val{vc.havocVal(st, t, "r")}
}

// ---------- builtins ----------

func (vc *VC) evalBuiltin(st *State, name string, c *ast.CallExpr) []Val {
	one := func(v Val) []Val { return []Val{v} }
	switch name {
	case "len", "cap":
		v := vc.eval(st, c.Args[0])
		t := types.Typ[types.Int]
		switch u := v.Ty.Underlying().(type) {
		case *types.Slice:
			_, ln, _ := vc.sliceParts(v)
			if name == "cap" {
				cv := vc.havocVal(st, t, "cap")
				vc.assume(st, fmt.Sprintf("(>= %s %s)", cv.S, ln))
				return one(cv)
			}
			return one(Val{S: ln, Ty: t, Sort: "Int"})
		case *types.Array:
			return one(Val{S: fmt.Sprint(u.Len()), Ty: t, Sort: "Int"})
		case *types.Map:
			card := fmt.Sprintf("(card_%s %s)", v.Sort, v.S)
			ks := vc.sortOf(u.Key())
			vc.assume(st, fmt.Sprintf("(>= %s 0)", card))
			vc.assume(st, fmt.Sprintf("(=> (= %s 0) (forall ((k %s)) (! (not (select (dom_%s %s) k)) :pattern ((select (dom_%s %s) k)))))", card, ks, v.Sort, v.S, v.Sort, v.S))
			return one(Val{S: card, Ty: t, Sort: "Int"})
		case *types.Basic:
			if u.Info()&types.IsString != 0 {
				vc.declareFun("strlen", []string{"Int"}, "Int")
				l := Val{S: fmt.Sprintf("(strlen %s)", v.S), Ty: t, Sort: "Int"}
				vc.assume(st, fmt.Sprintf("(>= %s 0)", l.S))
				return one(l)
			}
		case *types.Pointer:
			if a, ok := u.Elem().Underlying().(*types.Array); ok {
				return one(Val{S: fmt.Sprint(a.Len()), Ty: t, Sort: "Int"})
			}
		case *types.Chan:
			return one(vc.havocVal(st, t, "chanlen"))
		}
		vc.unsupportedf(c.Pos(), "%s of %s", name, v.Ty)
		return one(vc.havocVal(st, t, "len"))
	case "append":
		return one(vc.evalAppend(st, c))
	case "make":
		t := vc.typeOf(c)
		switch u := t.Underlying().(type) {
		case *types.Slice:
			n := vc.eval(st, c.Args[1])
			if len(c.Args) > 2 {
				cp := vc.eval(st, c.Args[2])
				vc.emit(st, "bounds", vc.fn.Key+"/bounds", vc.site("bounds"), fmt.Sprintf("(and (<= 0 %s) (<= %s %s))", n.S, n.S, cp.S), c.Pos(), "make: len <= cap")
			} else {
				vc.emit(st, "bounds", vc.fn.Key+"/bounds", vc.site("bounds"), fmt.Sprintf("(<= 0 %s)", n.S), c.Pos(), "make: len >= 0")
			}
			vc.recordAlloc(st, c, n, len(c.Args) > 2)
			ss := vc.sortOf(t)
			es := vc.sortOf(u.Elem())
			org := vc.fresh("org", "Int")
			vc.assume(st, fmt.Sprintf("(> %s 0)", org))
			vc.noteFreshOrigin(st, org)
			zarr := vc.eng.sorts.zeroOfSort("(Array Int "+es+")", nil)
			return one(Val{S: fmt.Sprintf("(mk_%s %s %s %s)", ss, zarr, n.S, org), Ty: t, Sort: ss})
		case *types.Map:
			for _, a := range c.Args[1:] {
				vc.eval(st, a)
			}
			return one(vc.newMap(st, t))
		case *types.Chan:
			// creating a channel is not yet concurrency: the value is a fresh channel with the given capacity (ghost chcap)
			ch := vc.havocVal(st, t, "chan")
			vc.declareFun("chcap", []string{"Int"}, "Int")
			cp := "0"
			if len(c.Args) > 1 {
				n := vc.eval(st, c.Args[1])
				vc.emit(st, "bounds", vc.fn.Key+"/bounds", vc.site("bounds"), fmt.Sprintf("(<= 0 %s)", n.S), c.Pos(), "make chan: size >= 0")
				cp = n.S
			}
			vc.assume(st, fmt.Sprintf("(and (not (= %s 0)) (= (chcap %s) %s))", ch.S, ch.S, cp))
			return one(ch)
		}
	case "new":
		t := vc.typeOf(c)
		pt := t.Underlying().(*types.Pointer)
		zv := vc.mk(vc.eng.sorts.zero(pt.Elem()), pt.Elem())
		return one(vc.allocObject(st, zv, t))
	case "delete":
		m := vc.eval(st, c.Args[0])
		mt := m.Ty.Underlying().(*types.Map)
		k := vc.evalConv(st, c.Args[1], mt.Key())
		vc.assign(st, c.Args[0], vc.mapDelete(m, k))
		return nil
	case "copy":
		if intElems(vc.typeOf(c.Args[0])) {
			vc.bytesCtx++
			defer func() { vc.bytesCtx-- }()
		}
		return one(vc.evalCopy(st, c))
	case "clear":
		v := vc.eval(st, c.Args[0])
		switch u := v.Ty.Underlying().(type) {
		case *types.Slice:
			// clear zeroes the elements; contents of the (dead) source are irrelevant under value semantics
			if vc.isLvalue(c.Args[0]) {
				_, ln, org := vc.sliceParts(v)
				es := vc.sortOf(u.Elem())
				zarr := vc.eng.sorts.zeroOfSort("(Array Int "+es+")", nil)
				vc.assign(st, c.Args[0], Val{S: fmt.Sprintf("(mk_%s %s %s %s)", v.Sort, zarr, ln, org), Ty: v.Ty, Sort: v.Sort})
			}
			return nil
		case *types.Map:
			vc.assign(st, c.Args[0], vc.newMap(st, v.Ty))
			return nil
		}
	case "min", "max":
		vals := []Val{}
		for _, a := range c.Args {
			vals = append(vals, vc.eval(st, a))
		}
		cur := vals[0]
		for _, v := range vals[1:] {
			op := "<="
			if name == "max" {
				op = ">="
			}
			cur = Val{S: fmt.Sprintf("(ite (%s %s %s) %s %s)", op, cur.S, v.S, cur.S, v.S), Ty: vc.typeOf(c), Sort: cur.Sort}
		}
		return one(cur)
	case "panic":
		vc.execPanic(st, c)
		// unreachable afterwards
		vc.assume(st, "false")
		return nil
	case "close":
		// closing a channel does not touch any modelled state
		vc.eval(st, c.Args[0])
		return nil
	}
	vc.unsupportedf(c.Pos(), "builtin %s", name)
	return vc.havocResults(st, c)
}

func (vc *VC) isLvalue(e ast.Expr) bool {
	switch x := e.(type) {
	case *ast.Ident:
		return true
	case *ast.SelectorExpr:
		return vc.eng.info.Selections[x] != nil
	case *ast.ParenExpr:
		return vc.isLvalue(x.X)
	}
	return false
}

// a fresh array that equals src on [0,n) shifted: dst[dOff+i] = src[sOff+i] for 0<=i<n, and dst[j]=base[j] elsewhere
func (vc *VC) arrayBlit(st *State, es, base, dOff, src, sOff, n string) string {
	a := vc.fresh("blit", "(Array Int "+es+")")
	vc.assume(st, fmt.Sprintf("(forall ((k Int)) (! (= (select %s k) (ite (and (<= %s k) (< k (+ %s %s))) (select %s (+ (- k %s) %s)) (select %s k))) :pattern ((select %s k))))",
		a, dOff, dOff, n, src, dOff, sOff, base, a))
	vc.sumFacts(st, es, func(ps func(a, n string) string, fv func(v string) string) []string {
		return []string{
			fmt.Sprintf("(=> (>= %s 0) (= %s %s))", dOff, ps(a, dOff), ps(base, dOff)),
			fmt.Sprintf("(=> (and (>= %s 0) (>= %s 0) (>= %s 0)) (= %s (+ %s (- %s %s))))", dOff, n, sOff, ps(a, fmt.Sprintf("(+ %s %s)", dOff, n)), ps(a, dOff), ps(src, fmt.Sprintf("(+ %s %s)", sOff, n)), ps(src, sOff)),
		}
	})
	return a
}

func (vc *VC) evalAppend(st *State, c *ast.CallExpr) Val {
	if intElems(vc.typeOf(c.Args[0])) {
		vc.bytesCtx++
		defer func() { vc.bytesCtx-- }()
	}
	base := vc.eval(st, c.Args[0])
	t := base.Ty
	st2, ok := t.Underlying().(*types.Slice)
	if !ok {
		vc.unsupportedf(c.Pos(), "append to %s", t)
		return vc.havocVal(st, t, "app")
	}
	es := vc.sortOf(st2.Elem())
	arr, ln, org := vc.sliceParts(base)
	norg := vc.fresh("org", "Int")
	vc.assume(st, fmt.Sprintf("(> %s 0)", norg))
	_ = org
	if c.Ellipsis.IsValid() {
		other := vc.eval(st, c.Args[1])
		if isString(other.Ty) {
			return vc.havocVal(st, t, "app")
		}
		oarr, oln, _ := vc.sliceParts(other)
		narr := vc.arrayBlit(st, es, arr, ln, oarr, "0", oln)
		nl := vc.define("alen", "Int", fmt.Sprintf("(+ %s %s)", ln, oln))
		return Val{S: fmt.Sprintf("(mk_%s %s %s %s)", base.Sort, narr, nl, norg), Ty: t, Sort: base.Sort}
	}
	narr := arr
	n := 0
	var appended []string
	for _, a := range c.Args[1:] {
		v := vc.evalConv(st, a, st2.Elem())
		narr = fmt.Sprintf("(store %s (+ %s %d) %s)", narr, ln, n, v.S)
		appended = append(appended, v.S)
		n++
	}
	if n > 0 {
		narr = vc.define("app", "(Array Int "+es+")", narr)
		vc.sumFacts(st, es, func(ps func(a, n string) string, fv func(v string) string) []string {
			tot := ps(arr, ln)
			for _, v := range appended {
				tot = fmt.Sprintf("(+ %s %s)", tot, fv(v))
			}
			return []string{fmt.Sprintf("(= %s %s)", ps(narr, fmt.Sprintf("(+ %s %d)", ln, n)), tot), fmt.Sprintf("(= %s %s)", ps(narr, ln), ps(arr, ln))}
		})
	}
	return Val{S: fmt.Sprintf("(mk_%s %s (+ %s %d) %s)", base.Sort, narr, ln, n, norg), Ty: t, Sort: base.Sort}
}

func (vc *VC) evalCopy(st *State, c *ast.CallExpr) Val {
	t := types.Typ[types.Int]
	src := vc.eval(st, c.Args[1])
	// destination forms: slice lvalue, x[:] / x[a:b] of slice lvalue or array lvalue
	dstE := c.Args[0]
	if isString(src.Ty) {
		vc.eval(st, dstE)
		vc.unsupportedf(c.Pos(), "copy from string")
		return vc.havocVal(st, t, "copy")
	}
	sarr, sln, _ := vc.sliceParts(src)
	switch d := dstE.(type) {
	case *ast.SliceExpr:
		baseT := vc.typeOf(d.X)
		lo := "0"
		if d.Low != nil {
			lo = vc.eval(st, d.Low).S
		}
		switch u := baseT.Underlying().(type) {
		case *types.Slice:
			base := vc.eval(st, d.X)
			barr, bln, borg := vc.sliceParts(base)
			hi := bln
			if d.High != nil {
				hi = vc.eval(st, d.High).S
			}
			vc.emit(st, "bounds", vc.fn.Key+"/bounds", vc.site("bounds"), fmt.Sprintf("(and (<= 0 %s) (<= %s %s) (<= %s %s))", lo, lo, hi, hi, bln), d.Pos(), "")
			n := vc.define("cn", "Int", fmt.Sprintf("(ite (<= %s (- %s %s)) %s (- %s %s))", sln, hi, lo, sln, hi, lo))
			es := vc.sortOf(u.Elem())
			narr := vc.arrayBlit(st, es, barr, lo, sarr, "0", n)
			vc.assignSliceBase(st, d.X, Val{S: fmt.Sprintf("(mk_%s %s %s %s)", base.Sort, narr, bln, borg), Ty: base.Ty, Sort: base.Sort})
			return Val{S: n, Ty: t, Sort: "Int"}
		case *types.Array:
			base := vc.eval(st, d.X)
			hi := fmt.Sprint(u.Len())
			if d.High != nil {
				hi = vc.eval(st, d.High).S
			}
			n := vc.define("cn", "Int", fmt.Sprintf("(ite (<= %s (- %s %s)) %s (- %s %s))", sln, hi, lo, sln, hi, lo))
			if isByteArraySmall(u) {
				// full overwrite only: value = big-endian of src bytes when n == len
				if lo == "0" && d.High == nil {
					be := vc.beValue(sarr, "0", u.Len())
					nv := vc.define("be", "Int", fmt.Sprintf("(ite (>= %s %d) %s %s)", sln, u.Len(), be, vc.fresh("partial", "Int")))
					vc.assign(st, d.X, Val{S: nv, Ty: baseT, Sort: "Int"})
					return Val{S: n, Ty: t, Sort: "Int"}
				}
				vc.unsupportedf(c.Pos(), "partial copy into small byte array")
				return vc.havocVal(st, t, "copy")
			}
			es := vc.sortOf(u.Elem())
			narr := vc.arrayBlit(st, es, base.S, lo, sarr, "0", n)
			vc.assign(st, d.X, Val{S: narr, Ty: baseT, Sort: base.Sort})
			return Val{S: n, Ty: t, Sort: "Int"}
		}
	default:
		if vc.isLvalue(dstE) {
			base := vc.eval(st, dstE)
			if u, ok := base.Ty.Underlying().(*types.Slice); ok {
				barr, bln, borg := vc.sliceParts(base)
				n := vc.define("cn", "Int", fmt.Sprintf("(ite (<= %s %s) %s %s)", sln, bln, sln, bln))
				es := vc.sortOf(u.Elem())
				narr := vc.arrayBlit(st, es, barr, "0", sarr, "0", n)
				vc.assignSliceBase(st, dstE, Val{S: fmt.Sprintf("(mk_%s %s %s %s)", base.Sort, narr, bln, borg), Ty: base.Ty, Sort: base.Sort})
				return Val{S: n, Ty: t, Sort: "Int"}
			}
		}
	}
	vc.eval(st, dstE)
	vc.unsupportedf(c.Pos(), "copy destination %T", dstE)
	return vc.havocVal(st, t, "copy")
}

// big-endian value of n bytes of arr starting at off
func (vc *VC) beValue(arr, off string, n int64) string {
	var terms []string
	for i := int64(0); i < n; i++ {
		p := pow256(n - 1 - i)
		idx := off
		if i > 0 {
			if off == "0" {
				idx = fmt.Sprint(i)
			} else {
				idx = fmt.Sprintf("(+ %s %d)", off, i)
			}
		}
		if p == "1" {
			terms = append(terms, fmt.Sprintf("(select %s %s)", arr, idx))
		} else {
			terms = append(terms, fmt.Sprintf("(* (select %s %s) %s)", arr, idx, p))
		}
	}
	if len(terms) == 1 {
		return terms[0]
	}
	return "(+ " + strings.Join(terms, " ") + ")"
}

func pow256(n int64) string {
	s := "1"
	for i := int64(0); i < n; i++ {
		s = mulDec(s, 256)
	}
	return s
}

func mulDec(s string, m int) string {
	// decimal string times small int
	carry := 0
	out := make([]byte, 0, len(s)+3)
	for i := len(s) - 1; i >= 0; i-- {
		v := int(s[i]-'0')*m + carry
		out = append(out, byte('0'+v%10))
		carry = v / 10
	}
	for carry > 0 {
		out = append(out, byte('0'+carry%10))
		carry /= 10
	}
	for i, j := 0, len(out)-1; i < j; i, j = i+1, j-1 {
		out[i], out[j] = out[j], out[i]
	}
	return string(out)
}

// ---------- static calls ----------

func funcKey(o *types.Func) string {
	sig := o.Type().(*types.Signature)
	if r := sig.Recv(); r != nil {
		t := r.Type()
		if p, ok := t.(*types.Pointer); ok {
			t = p.Elem()
		}
		t = types.Unalias(t)
		if n, ok := t.(*types.Named); ok {
			return n.Obj().Name() + "." + o.Name()
		}
		return types.TypeString(t, nil) + "." + o.Name()
	}
	return o.Name()
}

func externKey(o *types.Func) string {
	sig := o.Type().(*types.Signature)
	pk := ""
	if o.Pkg() != nil {
		pk = o.Pkg().Name() + "."
	}
	if r := sig.Recv(); r != nil {
		t := r.Type()
		if p, ok := t.(*types.Pointer); ok {
			t = p.Elem()
		}
		if n, ok := types.Unalias(t).(*types.Named); ok {
			return pk + n.Obj().Name() + "." + o.Name()
		}
	}
	return pk + o.Name()
}

// callMethod: concrete receiver method call x.M(args)
func (vc *VC) callMethod(st *State, recvE ast.Expr, sel *types.Selection, m *types.Func, c *ast.CallExpr) []Val {
	sig := m.Type().(*types.Signature)
	recvParamT := sig.Recv().Type()
	// evaluate receiver, following embedded path (all but last index)
	path := sel.Index()
	var rv Val
	baseT := vc.typeOf(recvE)
	_, wantPtr := recvParamT.Underlying().(*types.Pointer)
	_, havePtr := baseT.Underlying().(*types.Pointer)
	if len(path) > 1 {
		base := vc.eval(st, recvE)
		rv = vc.selectPath(st, base, path[:len(path)-1], c.Pos())
		_, havePtr = rv.Ty.Underlying().(*types.Pointer)
		if types.IsInterface(rv.Ty) {
			return vc.callInterface(st, rv, rv.Ty, m, c)
		}
	} else if wantPtr && !havePtr {
		// (&x).M()
		if id, ok := recvE.(*ast.Ident); ok {
			if o, ok := vc.eng.info.ObjectOf(id).(*types.Var); ok && vc.boxedLocal(o) != "" {
				rv = vc.mk(st.locals[vc.boxKey(o)], recvParamT)
				havePtr = true
			}
		}
		if !havePtr {
			// method with pointer receiver called on an addressable value: copy-in/copy-out through a temporary object
			val := vc.eval(st, recvE)
			tmp := vc.allocObject(st, val, recvParamT)
			res := vc.callStaticVals(st, m, &tmp, c.Args, c)
			back := vc.deref(st, tmp, c.Pos())
			vc.assign(st, recvE, back)
			return res
		}
	} else {
		rv = vc.eval(st, recvE)
	}
	if !wantPtr && havePtr {
		vc.nilCheck(st, rv, c.Pos())
		rv = vc.deref(st, rv, c.Pos())
	}
	return vc.callStaticVals(st, m, &rv, c.Args, c)
}

func (vc *VC) callStatic(st *State, o *types.Func, recv *Val, args []ast.Expr, c *ast.CallExpr) []Val {
	return vc.callStaticVals(st, o, recv, args, c)
}

func (vc *VC) evalArgs(st *State, sig *types.Signature, args []ast.Expr, c *ast.CallExpr) []Val {
	var out []Val
	np := sig.Params().Len()
	// f(g()) multi-value forwarding
	if len(args) == 1 && np > 1 {
		if call, ok := args[0].(*ast.CallExpr); ok {
			vals := vc.evalCall(st, call)
			if len(vals) == np {
				for i := range vals {
					vals[i] = vc.convert(st, vals[i], sig.Params().At(i).Type())
				}
				return vals
			}
		}
	}
	for i, a := range args {
		var pt types.Type
		if sig.Variadic() && i >= np-1 {
			if c != nil && c.Ellipsis.IsValid() {
				pt = sig.Params().At(np - 1).Type()
			} else {
				pt = sig.Params().At(np - 1).Type().(*types.Slice).Elem()
			}
		} else if i < np {
			pt = sig.Params().At(i).Type()
		}
		// address-of a plain local used as out-parameter
		if ue, ok := a.(*ast.UnaryExpr); ok && ue.Op == token.AND {
			if id, ok := ue.X.(*ast.Ident); ok {
				if o, ok := vc.eng.info.ObjectOf(id).(*types.Var); ok && vc.boxedLocal(o) == "" {
					if _, isLocal := st.locals[o]; isLocal {
						vc.outParams = append(vc.outParams, o)
						out = append(out, vc.havocVal(st, vc.typeOf(a), "outp"))
						continue
					}
				}
			}
		}
		v := vc.eval(st, a)
		if pt != nil && !containsTypeParam(pt) {
			v = vc.convert(st, v, pt)
		}
		out = append(out, v)
	}
	return out
}

func (vc *VC) callStaticVals(st *State, o *types.Func, recv *Val, args []ast.Expr, c *ast.CallExpr) []Val {
	if og := o.Origin(); og != nil {
		o = og
	}
	vc.pendingTargs = nil
	if c != nil {
		var id *ast.Ident
		fun := c.Fun
		if ix, ok := fun.(*ast.IndexExpr); ok {
			fun = ix.X
		}
		if ixl, ok := fun.(*ast.IndexListExpr); ok {
			fun = ixl.X
		}
		switch f := fun.(type) {
		case *ast.Ident:
			id = f
		case *ast.SelectorExpr:
			id = f.Sel
		}
		if id != nil {
			if inst, ok := vc.eng.info.Instances[id]; ok && inst.TypeArgs != nil {
				if sig, ok := o.Type().(*types.Signature); ok && sig.TypeParams() != nil {
					m := map[*types.TypeParam]types.Type{}
					for i := 0; i < sig.TypeParams().Len() && i < inst.TypeArgs.Len(); i++ {
						m[sig.TypeParams().At(i)] = vc.subst(inst.TypeArgs.At(i))
					}
					vc.pendingTargs = m
				}
			}
		}
	}
	sig := o.Type().(*types.Signature)
	if o.Pkg() != nil && o.Pkg().Path() == "sync" && sig.Recv() != nil {
		// synchronisation primitives (WaitGroup, Mutex, Once, Cond ...) belong to the concurrent phase: cut here. sync.Pool has
		// (assumed) sequential contracts and is not a cut.
		rt := sig.Recv().Type()
		if pt, ok := rt.(*types.Pointer); ok {
			rt = pt.Elem()
		}
		if n, ok := types.Unalias(rt).(*types.Named); ok && n.Obj().Name() != "Pool" {
			vc.cutState = st
			vc.concurrency(c.Pos(), "sync."+n.Obj().Name()+"."+o.Name())
			return vc.havocResultsSig(st, sig, vc.callResultTypes(c, sig))
		}
	}
	vc.outParams = nil
	argv := vc.evalArgs(st, sig, args, c)
	outs := vc.outParams
	vc.outParams = nil
	defer func() {
		for _, op := range outs {
			s := vc.sortOf(op.Type())
			n := vc.fresh(op.Name(), s)
			st.locals[op] = n
			vc.assumeRange(st, Val{S: n, Ty: op.Type(), Sort: s})
		}
	}()
	if recv != nil {
		if _, isPtr := recv.Ty.Underlying().(*types.Pointer); isPtr {
			vc.nilCheckRecv(st, *recv, c.Pos(), o)
		}
	}
	inPkg := o.Pkg() == vc.eng.pkg.Types
	if !inPkg {
		if res, ok := vc.callModelled(st, o, recv, argv, c); ok {
			return res
		}
		if ct := vc.eng.specs.Contracts[externKey(o)]; ct != nil {
			return vc.applyContract(st, ct, o, sig, recv, argv, c)
		}
		// unknown external function: havoc results; heap untouched only for known-pure packages
		if !vc.eng.pureExternal(o) {
			vc.havocForUnknownCall(st, externKey(o))
		}
		return vc.havocResultsSig(st, sig, vc.callResultTypes(c, sig))
	}
	key := funcKey(o)
	if ct := vc.eng.specs.Contracts[key]; ct != nil && (ct.Kind == "func" || ct.Kind == "extern") && !vc.preferInline(ct, key) {
		return vc.applyContract(st, ct, o, sig, recv, argv, c)
	}
	if fi := vc.eng.funcs[key]; fi != nil && vc.canInline(fi) {
		return vc.inlineCall(st, fi, recv, argv, c)
	}
	vc.notes = append(vc.notes, fmt.Sprintf("%s: call to %s without contract: results unconstrained, default frame", vc.eng.pos(c.Pos()), key))
	vc.havocForUnknownCall(st, key)
	return vc.havocResultsSig(st, sig, vc.callResultTypes(c, sig))
}

func (vc *VC) preferInline(ct *Contract, key string) bool {
	return false
}

func (vc *VC) nilCheckRecv(st *State, recv Val, pos token.Pos, o *types.Func) {
	vc.nilCheck(st, recv, pos)
}

func (vc *VC) callResultTypes(c *ast.CallExpr, sig *types.Signature) []types.Type {
	var out []types.Type
	if c != nil {
		t := vc.typeOf(c)
		if tt, ok := t.(*types.Tuple); ok {
			for i := 0; i < tt.Len(); i++ {
				out = append(out, tt.At(i).Type())
			}
			return out
		}
		if sig.Results().Len() == 1 {
			return []types.Type{t}
		}
	}
	for i := 0; i < sig.Results().Len(); i++ {
		out = append(out, sig.Results().At(i).Type())
	}
	return out
}

func (vc *VC) havocResultsSig(st *State, sig *types.Signature, rts []types.Type) []Val {
	var out []Val
	for _, t := range rts {
		out = append(out, vc.havocVal(st, t, "r"))
	}
	return out
}

func (vc *VC) havocForUnknownCall(st *State, callee string) {
	vc.havocAllHeap(st)
	vc.havocAllGhosts(st)
	// package-level variables may change too
	for o := range st.globals {
		if ov, ok := o.(*types.Var); ok && vc.eng.immutableGlobals[ov] {
			continue
		}
		st.globals[o] = vc.fresh(o.Name(), vc.sortOf(o.Type()))
	}
	vc.globalsHavocked(st)
	vc.havocCaptured(st)
}

// after an unknown call, globals not yet touched must not resolve to the entry constant
func (vc *VC) globalsHavocked(st *State) {
	for _, o := range vc.eng.pkgVars {
		if vc.eng.immutableGlobals[o] {
			continue // assigned nowhere outside setThreshold / initialisers (assignment census)
		}
		if _, ok := st.globals[o]; !ok {
			n := vc.fresh(o.Name(), vc.sortOf(o.Type()))
			st.globals[o] = n
			vc.assumeRange(st, Val{S: n, Ty: o.Type(), Sort: vc.sortOf(o.Type())})
		}
	}
}

// variables captured (and assigned) by closures created in this function may change at any call
func (vc *VC) havocCaptured(st *State) {
	for o := range vc.capturedAssigned {
		if _, ok := st.locals[o]; ok {
			s := vc.sortOf(o.Type())
			n := vc.fresh(o.Name(), s)
			st.locals[o] = n
			vc.assumeRange(st, Val{S: n, Ty: o.Type(), Sort: s})
		}
	}
}

func (vc *VC) canInline(fi *FuncInfo) bool {
	if fi.Body == nil || vc.inlineDepth >= 3 {
		return false
	}
	for _, f := range vc.frames {
		if f.fn == fi {
			return false // recursion
		}
	}
	if n, ok := vc.eng.inlineCost[fi.Key]; ok {
		return n
	}
	cnt := 0
	okInline := true
	ast.Inspect(fi.Body, func(n ast.Node) bool {
		switch n.(type) {
		case *ast.ForStmt, *ast.RangeStmt, *ast.GoStmt, *ast.SelectStmt, *ast.DeferStmt, *ast.FuncLit:
			okInline = false
		case ast.Stmt:
			cnt++
		}
		return true
	})
	if cnt > 18 {
		okInline = false
	}
	if ct := vc.eng.specs.Contracts[fi.Key]; ct != nil && ct.Options["inline"] == "true" {
		okInline = true
	}
	vc.eng.inlineCost[fi.Key] = okInline
	return okInline
}

func (vc *VC) inlineCall(st *State, fi *FuncInfo, recv *Val, argv []Val, c *ast.CallExpr) []Val {
	vc.inlined[fi.Key] = true
	vc.inlineDepth++
	defer func() { vc.inlineDepth-- }()
	sig := fi.Sig
	saved := st.locals
	savedGuards := st.guards
	nl := map[types.Object]string{}
	// keep caller locals reachable for closures? inlined named functions do not see caller locals.
	if recv != nil && sig.Recv() != nil && sig.Recv().Name() != "" && sig.Recv().Name() != "_" {
		nl[sig.Recv()] = vc.define(sig.Recv().Name(), recv.Sort, recv.S)
	}
	np := sig.Params().Len()
	for i := 0; i < np; i++ {
		p := sig.Params().At(i)
		if sig.Variadic() && i == np-1 {
			if c != nil && c.Ellipsis.IsValid() && i < len(argv) {
				nl[p] = argv[i].S
			} else {
				// build slice from remaining args
				slT := p.Type().(*types.Slice)
				ss := vc.sortOf(slT)
				es := vc.sortOf(slT.Elem())
				arr := vc.eng.sorts.zeroOfSort("(Array Int "+es+")", nil)
				k := 0
				for j := i; j < len(argv); j++ {
					arr = fmt.Sprintf("(store %s %d %s)", arr, k, argv[j].S)
					k++
				}
				nl[p] = vc.define(p.Name(), ss, fmt.Sprintf("(mk_%s %s %d 0)", ss, arr, k))
			}
			continue
		}
		if i < len(argv) {
			nl[p] = vc.define(p.Name(), vc.sortOfParam(p, argv[i]), argv[i].S)
		}
	}
	for i := 0; i < sig.Results().Len(); i++ {
		r := sig.Results().At(i)
		if r.Name() != "" && r.Name() != "_" {
			rt := r.Type()
			if vc.pendingTargs != nil {
				rt = substType(rt, vc.pendingTargs)
			}
			nl[r] = vc.eng.sorts.zero(rt)
		}
	}
	st.locals = nl
	fr := &frame{fn: fi, inline: true, targs: vc.pendingTargs}
	vc.pendingTargs = nil
	vc.frames = append(vc.frames, fr)
	work := st.clone()
	work.guards = nil
	if len(savedGuards) > 0 {
		// conditional evaluation context: run the callee under the guard as a path condition
		work.pc = append(work.pc, savedGuards...)
	}
	f := vc.execBlock(work, fi.Body.List)
	if f.normal != nil {
		// fell off the end (no results)
		vc.finishReturn(f.normal, nil, fi.Body.End())
	}
	vc.frames = vc.frames[:len(vc.frames)-1]
	// merge return states
	var sts []*State
	nres := sig.Results().Len()
	resTerms := make([][]string, nres)
	for _, r := range fr.rets {
		sts = append(sts, r.st)
	}
	if len(sts) == 0 {
		// callee never returns (panics)
		vc.assume(st, "false")
		st.locals = saved
		return vc.havocResultsSig(st, sig, vc.callResultTypes(c, sig))
	}
	rts := vc.callResultTypes(c, sig)
	// stash results in synthetic locals so that merge handles them
	resObjs := make([]types.Object, nres)
	for i := 0; i < nres; i++ {
		t := sig.Results().At(i).Type()
		if i < len(rts) {
			if _, isTP := t.(*types.TypeParam); isTP {
				t = rts[i]
			}
		}
		resObjs[i] = types.NewVar(token.NoPos, vc.eng.pkg.Types, fmt.Sprintf("res%d", i), t)
	}
	_ = resTerms
	for _, r := range fr.rets {
		for i := 0; i < nres && i < len(r.vals); i++ {
			r.st.locals[resObjs[i]] = r.vals[i].S
		}
	}
	m := vc.mergeAll(sts)
	var out []Val
	for i := 0; i < nres; i++ {
		t := resObjs[i].Type()
		if i < len(rts) && vc.sortOf(rts[i]) == vc.sortOf(t) {
			t = rts[i]
		}
		out = append(out, vc.mk(m.locals[resObjs[i]], t))
	}
	if len(savedGuards) > 0 {
		// under a guard: effects were computed assuming the guard; combine with the unguarded state
		pre := st.clone()
		pre.locals = map[types.Object]string{}
		pre.guards = nil
		g := "(and " + strings.Join(savedGuards, " ") + ")"
		// drop the guard facts we pushed (they are the first facts after the common prefix)
		mm := vc.merge(m, pre, g)
		*st = *mm
	} else {
		*st = *m
	}
	st.locals = saved
	st.guards = savedGuards
	return out
}

func (vc *VC) sortOfParam(p *types.Var, arg Val) string {
	if _, isTP := p.Type().(*types.TypeParam); isTP {
		return arg.Sort
	}
	if s := vc.sortOf(p.Type()); s != arg.Sort && containsTypeParam(p.Type()) {
		return arg.Sort
	}
	return vc.sortOf(p.Type())
}

func containsTypeParam(t types.Type) bool {
	switch u := t.(type) {
	case *types.TypeParam:
		return true
	case *types.Slice:
		return containsTypeParam(u.Elem())
	case *types.Array:
		return containsTypeParam(u.Elem())
	case *types.Map:
		return containsTypeParam(u.Key()) || containsTypeParam(u.Elem())
	case *types.Pointer:
		return containsTypeParam(u.Elem())
	case *types.Named:
		if u.TypeArgs() != nil {
			for i := 0; i < u.TypeArgs().Len(); i++ {
				if containsTypeParam(u.TypeArgs().At(i)) {
					return true
				}
			}
		}
	}
	return false
}

// ---------- interface dispatch ----------

func (vc *VC) callInterface(st *State, rv Val, ifaceT types.Type, m *types.Func, c *ast.CallExpr) []Val {
	sig := m.Type().(*types.Signature)
	vc.emit(st, "nil", vc.fn.Key+"/nil", vc.site("nil"), fmt.Sprintf("(not (= %s 0))", rv.S), c.Pos(), "interface receiver not nil")
	vc.assume(st, fmt.Sprintf("(not (= %s 0))", rv.S))
	// interface method contract?
	if ct := vc.eng.ifaceContract(ifaceT, m); ct != nil {
		argv := vc.evalArgs(st, sig, c.Args, c)
		return vc.applyContract(st, ct, m, sig, &rv, argv, c)
	}
	impls := vc.eng.closedImplementers(ifaceT)
	if impls != nil && len(impls) <= 6 {
		argv := vc.evalArgs(st, sig, c.Args, c)
		vc.needDyntype()
		var sts []*State
		var results [][]Val
		for _, it := range impls {
			ms := types.NewMethodSet(it)
			selm := ms.Lookup(m.Pkg(), m.Name())
			if selm == nil {
				continue
			}
			cm := selm.Obj().(*types.Func)
			bst := st.clone()
			bst.pc = append(bst.pc, fmt.Sprintf("(= (dyntype %s) %d)", rv.S, vc.eng.sorts.tid(it)))
			r := Val{S: rv.S, Ty: it, Sort: "Int"}
			// value receivers boxed in interface
			csig := cm.Type().(*types.Signature)
			if _, isPtr := it.Underlying().(*types.Pointer); !isPtr {
				_, unbox, _ := vc.boxNames(it)
				r = Val{S: fmt.Sprintf("(%s %s)", unbox, rv.S), Ty: it, Sort: vc.sortOf(it)}
			} else if _, wantPtr := csig.Recv().Type().Underlying().(*types.Pointer); !wantPtr {
				r = vc.deref(bst, r, c.Pos())
			}
			res := vc.callResolved(bst, cm, &r, argv, c)
			sts = append(sts, bst)
			results = append(results, res)
		}
		if len(sts) > 0 {
			return vc.mergeWithResults(st, sts, results, vc.callResultTypes(c, sig))
		}
	}
	vc.eval0Args(st, sig, c)
	vc.notes = append(vc.notes, fmt.Sprintf("%s: interface call %s.%s without contract: default frame", vc.eng.pos(c.Pos()), types.TypeString(ifaceT, nil), m.Name()))
	vc.havocForUnknownCall(st, m.Name())
	return vc.havocResultsSig(st, sig, vc.callResultTypes(c, sig))
}

func (vc *VC) eval0Args(st *State, sig *types.Signature, c *ast.CallExpr) {
	vc.evalArgs(st, sig, c.Args, c)
}

// call of a resolved concrete function with already-evaluated args
func (vc *VC) callResolved(st *State, o *types.Func, recv *Val, argv []Val, c *ast.CallExpr) []Val {
	if og := o.Origin(); og != nil {
		o = og
	}
	sig := o.Type().(*types.Signature)
	key := funcKey(o)
	if o.Pkg() == vc.eng.pkg.Types {
		if ct := vc.eng.specs.Contracts[key]; ct != nil && (ct.Kind == "func" || ct.Kind == "extern") {
			return vc.applyContract(st, ct, o, sig, recv, argv, c)
		}
		if fi := vc.eng.funcs[key]; fi != nil && vc.canInline(fi) {
			return vc.inlineCall(st, fi, recv, argv, c)
		}
	}
	vc.notes = append(vc.notes, fmt.Sprintf("%s: call to %s without contract: results unconstrained, default frame", vc.eng.pos(c.Pos()), key))
	vc.havocForUnknownCall(st, key)
	return vc.havocResultsSig(st, sig, vc.callResultTypes(c, sig))
}

func (vc *VC) mergeWithResults(st *State, sts []*State, results [][]Val, rts []types.Type) []Val {
	n := len(rts)
	objs := make([]types.Object, n)
	for i := range objs {
		objs[i] = types.NewVar(token.NoPos, vc.eng.pkg.Types, fmt.Sprintf("res%d", i), rts[i])
	}
	for k, s := range sts {
		for i := 0; i < n && i < len(results[k]); i++ {
			s.locals[objs[i]] = results[k][i].S
		}
	}
	m := vc.mergeAll(sts)
	var out []Val
	for i := 0; i < n; i++ {
		out = append(out, vc.mk(m.locals[objs[i]], rts[i]))
		delete(m.locals, objs[i])
	}
	*st = *m
	return out
}

// ---------- function values ----------

func (vc *VC) callFuncValue(st *State, fv Val, c *ast.CallExpr) []Val {
	sig, ok := fv.Ty.Underlying().(*types.Signature)
	if !ok {
		vc.unsupportedf(c.Pos(), "call of non-function value")
		return vc.havocResults(st, c)
	}
	argv := vc.evalArgs(st, sig, c.Args, c)
	// contract on the named function type?
	if n, ok := types.Unalias(fv.Ty).(*types.Named); ok {
		if ct := vc.eng.specs.Contracts[n.Obj().Name()]; ct != nil && ct.Kind == "functype" {
			return vc.applyContract(st, ct, nil, sig, nil, argv, c)
		}
	}
	// locally defined closure: inline if simple
	if lit, ok := vc.eng.closureOf[fv.S]; ok {
		_ = lit
	}
	vc.notes = append(vc.notes, fmt.Sprintf("%s: call of function value: default frame", vc.eng.pos(c.Pos())))
	vc.havocForUnknownCall(st, "func value")
	return vc.havocResultsSig(st, sig, vc.callResultTypes(c, sig))
}

// ---------- contracts at call sites ----------

type specEnv struct {
	vars map[string]Val
}

func (vc *VC) bindContractEnv(ct *Contract, sig *types.Signature, recv *Val, argv []Val) map[string]Val {
	env := map[string]Val{}
	if recv != nil {
		name := ct.RecvName
		if name == "" && sig.Recv() != nil {
			name = sig.Recv().Name()
		}
		if name == "" {
			name = "recv"
		}
		env[name] = *recv
		env["recv"] = *recv
	}
	np := sig.Params().Len()
	for i := 0; i < np && i < len(argv); i++ {
		name := sig.Params().At(i).Name()
		if ct.Params != nil && i < len(ct.Params) {
			name = ct.Params[i]
		}
		if name == "" || name == "_" {
			name = fmt.Sprintf("arg%d", i)
		}
		env[name] = argv[i]
		env[fmt.Sprintf("arg%d", i)] = argv[i]
	}
	return env
}

func resultNames(ct *Contract, sig *types.Signature) []string {
	n := sig.Results().Len()
	names := make([]string, n)
	for i := 0; i < n; i++ {
		nm := sig.Results().At(i).Name()
		if ct != nil && ct.Results != nil && i < len(ct.Results) {
			nm = ct.Results[i]
		}
		if nm == "" || nm == "_" {
			if isErrorType(sig.Results().At(i).Type()) && i == n-1 {
				nm = "err"
			} else if i == 0 {
				nm = "result"
			} else {
				nm = fmt.Sprintf("result%d", i)
			}
		}
		names[i] = nm
	}
	return names
}

func isErrorType(t types.Type) bool {
	n, ok := types.Unalias(t).(*types.Named)
	return ok && n.Obj().Pkg() == nil && n.Obj().Name() == "error"
}

func (vc *VC) applyContract(st *State, ct *Contract, o *types.Func, sig *types.Signature, recv *Val, argv []Val, c *ast.CallExpr) []Val {
	if ct.Trusted {
		vc.assumedContracts[ct.Key] = true
	}
	vc.calledContracts[ct.Key] = true
	env := vc.bindContractEnv(ct, sig, recv, argv)
	vc.callOrd[ct.Key]++
	site := fmt.Sprintf("%d", vc.callOrd[ct.Key])
	if vc.contract != nil && len(vc.frames) <= 1 {
		for _, bk := range []string{ct.Key, ct.Key + "#" + site} {
			// "before F: e" holds before every call of F; "before F#n: e" before the n-th call of F (in source order of evaluation)
			for _, bc := range vc.contract.Befores[bk] {
				// arg_<p> names the actual argument bound to the callee's parameter p (arg_recv: the receiver): delegation checks
				// ("the routed child is called with the unchanged key") do not depend on how the caller names its temporaries
				argEnv := &rangeCtx{extra: map[string]Val{}}
				for k, v := range env {
					argEnv.extra["arg_"+k] = v
				}
				t := vc.specBool(st, vc.entry, bc.Expr, argEnv, nil)
				clause := fmt.Sprintf("%s/before:%s/assert%d", vc.fn.Key, bk, bc.Ord)
				vc.emit(st, "assert", clause, site, t, c.Pos(), bc.Src)
				if !strings.Contains(bc.Src, "arg_") {
					// state assertions are assumed afterwards (they chain); hand-off checks on the actual arguments are only checked:
					// assuming them would add quantified facts that later obligations do not need
					vc.assume(st, t)
				}
			}
		}
	}
	// requires
	pre := st.clone()
	for _, rq := range ct.Requires {
		t := vc.specBool(st, pre, rq.Expr, nil, env)
		clause := fmt.Sprintf("%s/call:%s/requires%d", vc.fn.Key, ct.Key, rq.Ord)
		vc.emit(st, "precondition", clause, site, t, c.Pos(), rq.Src)
		vc.assume(st, t)
	}
	// frame
	vc.applyFrame(st, pre, ct, env, c)
	// results
	rts := vc.callResultTypes(c, sig)
	names := resultNames(ct, sig)
	var out []Val
	for i, t := range rts {
		v := vc.havocVal(st, t, "r_"+names[i])
		out = append(out, v)
		env[names[i]] = v
	}
	// ensures
	for _, en := range ct.Ensures {
		t := vc.specBool(st, pre, en.Expr, nil, env)
		vc.assume(st, t)
	}
	for _, gd := range ct.GhostDefs {
		if !vc.ghostDefRelevant(gd) {
			continue // defines only ghost state that the function under verification never mentions: dropping it is sound
		}
		t := vc.specBool(st, pre, gd.Expr, nil, env)
		vc.assume(st, t)
		vc.noteAssumption(fmt.Sprintf("ghost definition at %s: %s", ct.Key, gd.Src))
	}
	return out
}

var identRe = regexp.MustCompile(`[A-Za-z_][A-Za-z0-9_]*`)

// contractMentions: identifiers occurring in the clauses of the contract under verification, closed under pred definitions
func (vc *VC) contractMentions() map[string]bool {
	if vc.mentions != nil {
		return vc.mentions
	}
	m := map[string]bool{}
	var add func(src string)
	add = func(src string) {
		for _, id := range identRe.FindAllString(src, -1) {
			if m[id] {
				continue
			}
			m[id] = true
			if p, ok := vc.eng.specs.Preds[id]; ok {
				add(p.Src)
			}
		}
	}
	ct := vc.contract
	if ct != nil {
		lists := [][]*Clause{ct.Requires, ct.Ensures, ct.Exits, ct.AtCuts, ct.Assumes, ct.GhostDefs}
		for _, b := range ct.Befores {
			lists = append(lists, b)
		}
		for _, l := range ct.Loops {
			lists = append(lists, l.Invariants)
		}
		for _, r := range ct.Recvs {
			lists = append(lists, r)
		}
		for _, l := range lists {
			for _, cl := range l {
				add(cl.Src)
			}
		}
	}
	vc.mentions = m
	return m
}

func (vc *VC) ghostDefRelevant(gd *Clause) bool {
	if vc.contract == nil {
		return true
	}
	m := vc.contractMentions()
	any := false
	for _, id := range identRe.FindAllString(gd.Src, -1) {
		if g, ok := vc.eng.specs.Ghosts[id]; ok && !strings.HasPrefix(g.Type, "fn(") {
			any = true
			if m[id] {
				return true
			}
		}
	}
	return !any
}

// applyFrame havocs what the callee may modify
func (vc *VC) applyFrame(st *State, pre *State, ct *Contract, env map[string]Val, c *ast.CallExpr) {
	if ct.Pure || (ct.HasModif && len(ct.Modifies) == 0) {
		return
	}
	if !ct.HasModif {
		vc.havocForUnknownCall(st, ct.Key)
		return
	}
	for _, m := range ct.Modifies {
		vc.havocLocation(st, pre, m, env, c)
	}
	vc.havocCaptured(st)
}

// location forms: "x.f" (field f of object x), "T.f" / "T.*" (field of all objects of type T), "ghost.name", "heap" (everything),
// "global.name", "alloc"
func (vc *VC) havocLocation(st *State, pre *State, loc string, env map[string]Val, c *ast.CallExpr) {
	loc = strings.TrimSpace(loc)
	switch {
	case loc == "heap":
		vc.havocForUnknownCall(st, "heap")
		return
	case loc == "alloc":
		old := st.alloc
		st.alloc = vc.fresh("alloc", "(Array Int Bool)")
		vc.assume(st, fmt.Sprintf("(forall ((r Int)) (! (=> (select %s r) (select %s r)) :pattern ((select %s r))))", old, st.alloc, old))
		return
	case strings.HasPrefix(loc, "ghost."):
		g := loc[6:]
		st.ghost[g] = vc.fresh("g_"+g, vc.eng.ghostSort(g))
		return
	case strings.HasPrefix(loc, "global."):
		g := loc[7:]
		if o, ok := vc.eng.pkg.Types.Scope().Lookup(g).(*types.Var); ok {
			n := vc.fresh(o.Name(), vc.sortOf(o.Type()))
			st.globals[o] = n
			vc.assumeRange(st, Val{S: n, Ty: o.Type(), Sort: vc.sortOf(o.Type())})
			return
		}
	}
	// conditional form  T.f@rel(arg): only objects r with rel(arg, r) may change
	condRel, condArg := "", ""
	if at := strings.Index(loc, "@"); at >= 0 {
		rest := loc[at+1:]
		loc = loc[:at]
		if i := strings.Index(rest, "("); i > 0 && strings.HasSuffix(rest, ")") {
			condRel = rest[:i]
			ae, err := parseSpecExpr(rest[i+1 : len(rest)-1])
			if err != nil {
				vc.unsupportedf(c.Pos(), "bad modifies condition %q", rest)
				return
			}
			av := vc.specEval(pre, pre, ae, nil, env)
			condArg = av.S
			vc.declareFun("uf_"+condRel, []string{"Int", "Int"}, "Bool")
		}
	}
	if strings.HasPrefix(loc, "*") {
		// pointee of a pointer to a non-struct value
		e, err := parseSpecExpr(loc[1:])
		if err != nil {
			vc.unsupportedf(c.Pos(), "bad modifies location %q: %v", loc, err)
			return
		}
		bv := vc.specEval(pre, pre, e, nil, env)
		pt, ok := bv.Ty.Underlying().(*types.Pointer)
		if !ok {
			vc.unsupportedf(c.Pos(), "modifies location %q: not a pointer", loc)
			return
		}
		es := vc.sortOf(pt.Elem())
		key := "ptr:" + es
		arr := vc.heapGet(st, key, es)
		nv := vc.fresh("pointee", es)
		vc.assumeRange(st, Val{S: nv, Ty: pt.Elem(), Sort: es})
		st.heap[key] = vc.define("H_"+key, "(Array Int "+es+")", fmt.Sprintf("(ite (= %s 0) %s (store %s %s %s))", bv.S, arr, arr, bv.S, nv))
		return
	}
	// split last component
	k := strings.LastIndex(loc, ".")
	if k < 0 {
		vc.unsupportedf(c.Pos(), "bad modifies location %q", loc)
		return
	}
	base, field := loc[:k], loc[k+1:]
	// type-wide?
	if tn, ok := vc.eng.pkg.Types.Scope().Lookup(base).(*types.TypeName); ok {
		if n, s := namedStructOf(tn.Type()); n != nil {
			for i := 0; i < s.NumFields(); i++ {
				f := s.Field(i)
				if field == "*" || field == f.Name() {
					key := vc.heapKey(n, f.Name())
					es := vc.sortOf(f.Type())
					before := vc.heapGet(st, key, es)
					st.heap[key] = vc.fresh("H_"+key, "(Array Int "+es+")")
					if condRel != "" {
						ff := fmt.Sprintf("(forall ((r Int)) (! (=> (not (uf_%s %s r)) (= (select %s r) (select %s r))) :pattern ((select %s r))))", condRel, condArg, st.heap[key], before, st.heap[key])
						lenBefore := len(st.pc)
						vc.assume(st, ff)
						if len(st.pc) > lenBefore {
							vc.frameFacts[st.pc[len(st.pc)-1]] = []string{st.heap[key]}
						}
					}
				}
			}
			return
		}
	}
	// object field: evaluate base in pre-state
	e, err := parseSpecExpr(base)
	if err != nil {
		vc.unsupportedf(c.Pos(), "bad modifies location %q: %v", loc, err)
		return
	}
	bv := vc.specEval(pre, pre, e, nil, env)
	pt, ok := bv.Ty.Underlying().(*types.Pointer)
	if !ok {
		// interface-typed: allow `as` casts in the location instead
		vc.unsupportedf(c.Pos(), "modifies location %q: base is not a pointer", loc)
		return
	}
	n, s := namedStructOf(pt.Elem())
	if n == nil {
		vc.unsupportedf(c.Pos(), "modifies location %q: not a struct pointer", loc)
		return
	}
	for i := 0; i < s.NumFields(); i++ {
		f := s.Field(i)
		if field == "*" || field == f.Name() {
			key := vc.heapKey(n, f.Name())
			es := vc.sortOf(f.Type())
			arr := vc.heapGet(st, key, es)
			nv := vc.fresh(f.Name(), es)
			fv := Val{S: nv, Ty: f.Type(), Sort: es}
			vc.assumeRange(st, fv)
			// guarded: a nil base modifies nothing
			st.heap[key] = vc.define("H_"+key, "(Array Int "+es+")", fmt.Sprintf("(ite (= %s 0) %s (store %s %s %s))", bv.S, arr, arr, bv.S, nv))
		}
	}
}

// havocAllGhosts: ghost state after code with unknown effect. Ghosts not mentioned so far on this path denote their entry value and
// are havocked like the others. Int-typed ghosts are event counters: they do not decrease.
func (vc *VC) havocAllGhosts(st *State) {
	var names []string
	for g := range vc.eng.specs.Ghosts {
		names = append(names, g)
	}
	sort.Strings(names)
	for _, g := range names {
		before := vc.ghostGet(st, g)
		st.ghost[g] = vc.fresh("g_"+g, vc.eng.ghostSort(g))
		if vc.eng.ghostSort(g) == "Int" {
			vc.assume(st, fmt.Sprintf("(>= %s %s)", st.ghost[g], before))
			vc.assumptionsUsed["int-typed ghost variables are event counters (only incremented, by ghostdef clauses): a call with unknown effect does not decrease them"] = true
		}
	}
}
