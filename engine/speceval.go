package main

// Evaluation of spec expressions (contract clauses) to SMT terms in a given state.

import (
	"os"
	"math/big"
	"fmt"
	"go/token"
	"go/types"
	"strings"
)

type specCtx struct {
	vc    *VC
	cur   *State
	old   *State
	rc    *rangeCtx
	env   map[string]Val // contract-bound names (callee params / results at call sites)
	bound map[string]Val // quantifier-bound and pred params
	depth int
	scopePos token.Pos
}

// specBool evaluates a boolean spec expression.
func (vc *VC) specBool(cur, old *State, e SExpr, rc *rangeCtx, env map[string]Val) string {
	v := vc.specEval(cur, old, e, rc, env)
	if v.Sort != "Bool" {
		vc.unsupportedf(token.NoPos, "spec expression is not boolean: %s (sort %s)", specString(e), v.Sort)
		return "true"
	}
	return v.S
}

func (vc *VC) specEval(cur, old *State, e SExpr, rc *rangeCtx, env map[string]Val) Val {
	if old == nil {
		old = vc.entry
	}
	c := &specCtx{vc: vc, cur: cur, old: old, rc: rc, env: env, bound: map[string]Val{}}
	return c.eval(e)
}

func specString(e SExpr) string {
	switch x := e.(type) {
	case *SIdent:
		return x.Name
	case *SInt:
		return x.V
	case *SBool:
		return fmt.Sprint(x.V)
	case *SNil:
		return "nil"
	case *SStr:
		return "\"" + x.V + "\""
	case *SBin:
		return "(" + specString(x.L) + " " + x.Op + " " + specString(x.R) + ")"
	case *SUn:
		return x.Op + specString(x.X)
	case *SCall:
		var a []string
		for _, y := range x.Args {
			a = append(a, specString(y))
		}
		return x.Fun + "(" + strings.Join(a, ", ") + ")"
	case *SSel:
		return specString(x.X) + "." + x.Name
	case *SIndex:
		return specString(x.X) + "[" + specString(x.I) + "]"
	case *SSliceE:
		return specString(x.X) + "[:]"
	case *SQuant:
		q := "exists"
		if x.Forall {
			q = "forall"
		}
		var vs []string
		for _, v := range x.Vars {
			vs = append(vs, v.Name)
		}
		return q + " " + strings.Join(vs, ",") + " :: " + specString(x.Body)
	case *STypeAssert:
		return specString(x.X) + ".(" + x.T + ")"
	}
	return "?"
}

func (c *specCtx) fail(format string, args ...any) Val {
	c.vc.unsupportedf(token.NoPos, "spec: "+format, args...)
	return Val{S: "true", Sort: "Bool"}
}

func (c *specCtx) boolV(s string) Val { return Val{S: s, Ty: types.Typ[types.Bool], Sort: "Bool"} }
func (c *specCtx) intV(s string) Val  { return Val{S: s, Ty: types.Typ[types.Int], Sort: "Int"} }

func (c *specCtx) lookupType(name string) types.Type {
	return c.vc.eng.lookupType(name)
}

func (c *specCtx) eval(e SExpr) Val {
	vc := c.vc
	switch x := e.(type) {
	case *SInt:
		return Val{S: x.V, Ty: types.Typ[types.UntypedInt], Sort: "Int"}
	case *SBool:
		if x.V {
			return c.boolV("true")
		}
		return c.boolV("false")
	case *SNil:
		return Val{S: "0", Ty: types.Typ[types.UntypedNil], Sort: "Int"}
	case *SStr:
		return Val{S: fmt.Sprint(vc.eng.strID(x.V)), Ty: types.Typ[types.String], Sort: "Int"}
	case *SIdent:
		return c.ident(x.Name)
	case *SUn:
		v := c.eval(x.X)
		if x.Op == "!" {
			return c.boolV("(not " + v.S + ")")
		}
		return Val{S: "(- " + v.S + ")", Ty: v.Ty, Sort: v.Sort}
	case *SBin:
		return c.binary(x)
	case *SSel:
		return c.sel(x)
	case *SIndex:
		b := c.eval(x.X)
		i := c.eval(x.I)
		return c.index(b, i)
	case *SSliceE:
		return c.fail("slice expressions in specs are not supported")
	case *SQuant:
		return c.quant(x)
	case *SCall:
		return c.call(x)
	case *STypeAssert:
		v := c.eval(x.X)
		t := c.lookupType(x.T)
		if t == nil {
			return c.fail("unknown type %s", x.T)
		}
		r, _ := vc.typeAssert(c.cur, v, t)
		return r
	}
	return c.fail("unknown spec node %T", e)
}

func (c *specCtx) ident(name string) Val {
	vc := c.vc
	if v, ok := c.bound[name]; ok {
		return v
	}
	if c.rc != nil {
		if v, ok := c.rc.extra[name]; ok {
			return v
		}
	}
	if c.env != nil {
		if v, ok := c.env[name]; ok {
			return v
		}
		// at a call site, names resolve only in the contract environment and package scope
	} else {
		// function-level names: parameters, results, locals in scope (by name)
		if v, ok := c.localByName(name); ok {
			return v
		}
	}
	// ghost variable
	if _, ok := vc.eng.specs.Ghosts[name]; ok {
		return Val{S: vc.ghostGet(c.cur, name), Sort: vc.eng.ghostSort(name), Ty: vc.eng.ghostType(name)}
	}
	// package-level
	if o := vc.eng.pkg.Types.Scope().Lookup(name); o != nil {
		switch oo := o.(type) {
		case *types.Const:
			if s, ok := constToTerm(oo.Val(), oo.Type(), vc); ok {
				return vc.mk(s, oo.Type())
			}
		case *types.Var:
			t := vc.getGlobal(c.cur, oo)
			if _, seen := c.cur.globals[oo]; !seen {
				if f := vc.eng.sorts.rangeFact(t, oo.Type(), 0); f != "" {
					vc.addAxiom(f)
				}
				if iv, ok := vc.eng.globalConstInit[oo]; ok {
					vc.addAxiom(fmt.Sprintf("(= %s %s)", t, iv))
				}
			}
			return vc.mk(t, oo.Type())
		}
	}
	// builtin spec constants
	switch name {
	case "User":
		return c.intV("1")
	case "Fatal":
		return c.intV("2")
	case "External":
		return c.intV("3")
	case "alloc":
		return Val{S: c.cur.alloc, Sort: "(Array Int Bool)"}
	case "MaxUint32":
		return c.intV("4294967295")
	case "MaxUint16":
		return c.intV("65535")
	case "MaxUint64":
		return c.intV("18446744073709551615")
	}
	if vc.tolerant {
		vc.missingNames++
		return Val{S: "true", Sort: "Bool"}
	}
	return c.fail("unresolved name %q", name)
}

// localByName finds a variable of the function under verification by name among current locals.
func (c *specCtx) localByName(name string) (Val, bool) {
	vc := c.vc
	if len(vc.frames) == 0 || vc.frames[0].fn == nil || vc.frames[0].fn.Body == nil {
		return Val{}, false
	}
	fr := vc.frames[0]
	// contract-declared positional names
	if vc.contract != nil {
		sig := fr.fn.Sig
		if sig.Recv() != nil && ((vc.contract.RecvName != "" && name == vc.contract.RecvName) || (vc.contract.AltRecv != "" && name == vc.contract.AltRecv)) {
			if t, ok := c.cur.locals[sig.Recv()]; ok {
				return vc.mk(t, sig.Recv().Type()), true
			}
		}
		for _, plist := range [][]string{vc.contract.Params, vc.contract.AltParams} {
			for i, pn := range plist {
				if pn == name && i < sig.Params().Len() {
					p := sig.Params().At(i)
					if t, ok := c.cur.locals[p]; ok {
						return vc.mk(t, p.Type()), true
					}
					if t, ok := c.cur.locals[vc.paramShadow(p)]; ok {
						return vc.mk(t, p.Type()), true
					}
				}
			}
		}
	}
	if v, ok := vc.resultEnv[name]; ok {
		return v, true
	}
	// innermost scope wins: choose among locals with that name the one declared latest (largest position)
	var best types.Object
	for o := range c.cur.locals {
		if o.Name() == name {
			if best == nil || o.Pos() > best.Pos() {
				best = o
			}
		}
	}
	if best != nil {
		if bv, ok := best.(*types.Var); ok && vc.boxedLocal(bv) != "" {
			return vc.readBoxed(c.cur, bv), true
		}
		return vc.mk(c.cur.locals[best], best.Type()), true
	}
	return Val{}, false
}

func (c *specCtx) binary(x *SBin) Val {
	switch x.Op {
	case "&&", "||", "==>", "<==>":
		l := c.eval(x.L)
		r := c.eval(x.R)
		if l.Sort != "Bool" || r.Sort != "Bool" {
			return c.fail("connective %s on non-boolean operands in %s", x.Op, specString(x))
		}
		switch x.Op {
		case "&&":
			return c.boolV(fmt.Sprintf("(and %s %s)", l.S, r.S))
		case "||":
			return c.boolV(fmt.Sprintf("(or %s %s)", l.S, r.S))
		case "==>":
			return c.boolV(fmt.Sprintf("(=> %s %s)", l.S, r.S))
		default:
			return c.boolV(fmt.Sprintf("(= %s %s)", l.S, r.S))
		}
	}
	l := c.eval(x.L)
	r := c.eval(x.R)
	switch x.Op {
	case "==", "!=":
		eq := c.equal(l, r)
		if x.Op == "!=" {
			return c.boolV("(not " + eq + ")")
		}
		return c.boolV(eq)
	case "<", "<=", ">", ">=":
		return c.boolV(fmt.Sprintf("(%s %s %s)", x.Op, l.S, r.S))
	case "+", "-", "*":
		t := l.Ty
		return Val{S: fmt.Sprintf("(%s %s %s)", x.Op, l.S, r.S), Ty: t, Sort: "Int"}
	case "/":
		return Val{S: fmt.Sprintf("(div %s %s)", l.S, r.S), Ty: l.Ty, Sort: "Int"}
	case "%":
		return Val{S: fmt.Sprintf("(mod %s %s)", l.S, r.S), Ty: l.Ty, Sort: "Int"}
	}
	return c.fail("operator %s", x.Op)
}

func (c *specCtx) equal(l, r Val) string {
	vc := c.vc
	isNil := func(v Val) bool { return v.Ty != nil && isNilType(v.Ty) }
	if isNil(r) && !isNil(l) {
		l, r = r, l
	}
	if isNil(l) && r.Ty != nil {
		switch r.Ty.Underlying().(type) {
		case *types.Slice:
			return fmt.Sprintf("(= (org_%s %s) 0)", r.Sort, r.S)
		case *types.Map:
			vc.declareFun("mapnil_"+r.Sort, []string{r.Sort}, "Bool")
			return fmt.Sprintf("(mapnil_%s %s)", r.Sort, r.S)
		}
		return fmt.Sprintf("(= %s 0)", r.S)
	}
	// interface vs concrete value: box
	if l.Ty != nil && r.Ty != nil {
		if types.IsInterface(l.Ty) && !types.IsInterface(r.Ty) && r.Sort != "Int" {
			r = vc.convert(c.cur, r, l.Ty)
		} else if types.IsInterface(r.Ty) && !types.IsInterface(l.Ty) && l.Sort != "Int" {
			l = vc.convert(c.cur, l, r.Ty)
		}
	}
	if l.Sort != r.Sort {
		c.fail("equality between sorts %s and %s", l.Sort, r.Sort)
		return "true"
	}
	return fmt.Sprintf("(= %s %s)", l.S, r.S)
}

func (c *specCtx) sel(x *SSel) Val {
	vc := c.vc
	// ghost.name
	if id, ok := x.X.(*SIdent); ok && id.Name == "ghost" {
		return Val{S: vc.ghostGet(c.cur, x.Name), Sort: vc.eng.ghostSort(x.Name), Ty: vc.eng.ghostType(x.Name)}
	}
	b := c.eval(x.X)
	return c.field(b, x.Name)
}

func (c *specCtx) field(b Val, name string) Val {
	vc := c.vc
	if b.Ty == nil {
		return c.fail("field %s of untyped value", name)
	}
	obj, path, _ := types.LookupFieldOrMethod(b.Ty, true, vc.eng.pkg.Types, name)
	fv, ok := obj.(*types.Var)
	if !ok {
		return c.fail("no field %s in %s", name, b.Ty)
	}
	_ = fv
	// spec field reads never emit nil obligations: reading through nil yields an arbitrary value
	return vc.selectPathSpec(c.cur, b, path)
}

// selectPathSpec: like selectPath but without safety obligations
func (vc *VC) selectPathSpec(st *State, base Val, path []int) Val {
	cur := base
	for _, idx := range path {
		t := cur.Ty
		if pt, ok := t.Underlying().(*types.Pointer); ok {
			n, s := namedStructOf(pt.Elem())
			if n == nil || !vc.eng.inPkg(n) {
				if s2, ok := pt.Elem().Underlying().(*types.Struct); ok {
					cur = vc.opaqueField(st, cur, s2.Field(idx))
					continue
				}
				vc.unsupportedf(token.NoPos, "spec: field access through pointer to non-struct")
				return cur
			}
			f := s.Field(idx)
			key := vc.heapKey(n, f.Name())
			es := vc.sortOf(f.Type())
			arr := vc.heapGet(st, key, es)
			cur = Val{S: fmt.Sprintf("(select %s %s)", arr, cur.S), Ty: f.Type(), Sort: es}
			continue
		}
		s, ok := t.Underlying().(*types.Struct)
		if !ok {
			vc.unsupportedf(token.NoPos, "spec: field access on non-struct %s", t)
			return cur
		}
		if vc.sortOf(t) == "Int" {
			cur = vc.opaqueField(st, cur, s.Field(idx))
			continue
		}
		fv, ok := vc.fieldSel(cur, s.Field(idx).Name())
		if !ok {
			vc.unsupportedf(token.NoPos, "spec: field not found")
			return cur
		}
		cur = fv
	}
	return cur
}

func (c *specCtx) index(b, i Val) Val {
	vc := c.vc
	if b.Ty != nil {
		if pt, ok := b.Ty.Underlying().(*types.Pointer); ok {
			// p[i] with p a pointer to an array: index the pointee (read in the current state)
			if _, isArr := pt.Elem().Underlying().(*types.Array); isArr {
				es := vc.sortOf(pt.Elem())
				arr := vc.heapGet(c.cur, "ptr:"+es, es)
				return c.index(Val{S: fmt.Sprintf("(select %s %s)", arr, b.S), Ty: pt.Elem(), Sort: es}, i)
			}
		}
		switch u := b.Ty.Underlying().(type) {
		case *types.Slice:
			arr, _, _ := vc.sliceParts(b)
			_, elemIsStruct := u.Elem().Underlying().(*types.Struct)
			if eb, ok := u.Elem().Underlying().(*types.Basic); (elemIsStruct || (ok && eb.Info()&types.IsInteger != 0)) && !strings.Contains(b.S, "_q") {
				// type invariant of the slice value: elements are in the element type's range
				if f := vc.eng.sorts.rangeFact(b.S, b.Ty, 0); f != "" && !vc.rangeAsserted[f] {
					vc.rangeAsserted[f] = true
					vc.typeFacts = append(vc.typeFacts, f)
				}
			}
			return Val{S: fmt.Sprintf("(select %s %s)", arr, i.S), Ty: u.Elem(), Sort: vc.sortOf(u.Elem())}
		case *types.Array:
			if isByteArraySmall(u) {
				return Val{S: vc.byteOfBE(b.S, i.S, u.Len()), Ty: u.Elem(), Sort: "Int"}
			}
			return Val{S: fmt.Sprintf("(select %s %s)", b.S, i.S), Ty: u.Elem(), Sort: vc.sortOf(u.Elem())}
		case *types.Map:
			if i.Ty != nil && !types.Identical(i.Ty, u.Key()) {
				i = vc.convert(c.cur, i, u.Key())
			}
			return Val{S: fmt.Sprintf("(select (val_%s %s) %s)", b.Sort, b.S, i.S), Ty: u.Elem(), Sort: vc.sortOf(u.Elem())}
		}
	}
	// slice-sorted value without a Go type (e.g. an entry of a ghost map[K][]byte)
	if strings.HasPrefix(b.Sort, "Sl_") {
		es := strings.TrimPrefix(b.Sort, "Sl_")
		return Val{S: fmt.Sprintf("(select (arr_%s %s) %s)", b.Sort, b.S, i.S), Sort: es, Ty: c.vc.eng.typeOfSort(es)}
	}
	// raw SMT array
	if strings.HasPrefix(b.Sort, "(Array ") {
		es := arrayElemSort(b.Sort)
		return Val{S: fmt.Sprintf("(select %s %s)", b.S, i.S), Sort: es, Ty: c.vc.eng.typeOfSort(es)}
	}
	return c.fail("index on %s", b.Sort)
}

// element sort of "(Array K V)"
func arrayElemSort(s string) string {
	inner := s[len("(Array ") : len(s)-1]
	// skip the key sort (balanced)
	d := 0
	for i := 0; i < len(inner); i++ {
		switch inner[i] {
		case '(':
			d++
		case ')':
			d--
		case ' ':
			if d == 0 {
				return inner[i+1:]
			}
		}
	}
	return "Int"
}

func arrayKeySort(s string) string {
	inner := s[len("(Array ") : len(s)-1]
	d := 0
	for i := 0; i < len(inner); i++ {
		switch inner[i] {
		case '(':
			d++
		case ')':
			d--
		case ' ':
			if d == 0 {
				return inner[:i]
			}
		}
	}
	return "Int"
}

func (c *specCtx) quant(x *SQuant) Val {
	vc := c.vc
	saved := map[string]Val{}
	var decls []string
	var ranges []string
	for _, v := range x.Vars {
		if old, ok := c.bound[v.Name]; ok {
			saved[v.Name] = old
		}
		name := fmt.Sprintf("%s_q%d", sanitize(v.Name), vc.nextQ())
		var val Val
		switch v.Type {
		case "int", "Int":
			val = Val{S: name, Ty: types.Typ[types.UntypedInt], Sort: "Int"}
		case "bool":
			val = Val{S: name, Ty: types.Typ[types.Bool], Sort: "Bool"}
		default:
			t := c.lookupType(v.Type)
			if t == nil {
				if strings.HasPrefix(v.Type, "set[") || strings.HasPrefix(v.Type, "map[") || v.Type == "ref" {
					val = Val{S: name, Sort: vc.eng.specSort(v.Type)}
					decls = append(decls, fmt.Sprintf("(%s %s)", name, val.Sort))
					c.bound[v.Name] = val
					continue
				}
				return c.fail("unknown type %q in quantifier", v.Type)
			}
			val = vc.mk(name, t)
			if f := vc.eng.sorts.rangeFact(name, t, 0); f != "" {
				ranges = append(ranges, f)
			}
		}
		decls = append(decls, fmt.Sprintf("(%s %s)", name, val.Sort))
		c.bound[v.Name] = val
	}
	body := c.eval(x.Body)
	var pats []string
	for _, grp := range x.Triggers {
		var ts []string
		for _, te := range grp {
			ts = append(ts, c.eval(te).S)
		}
		pats = append(pats, ":pattern ("+strings.Join(ts, " ")+")")
	}
	for _, v := range x.Vars {
		if old, ok := saved[v.Name]; ok {
			c.bound[v.Name] = old
		} else {
			delete(c.bound, v.Name)
		}
	}
	if body.Sort != "Bool" {
		return c.fail("quantifier body is not boolean")
	}
	b := body.S
	if len(ranges) > 0 {
		if x.Forall {
			b = fmt.Sprintf("(=> (and %s) %s)", strings.Join(ranges, " "), b)
		} else {
			b = fmt.Sprintf("(and %s %s)", strings.Join(ranges, " "), b)
		}
	}
	q := "exists"
	if x.Forall {
		q = "forall"
	}
	if len(pats) > 0 {
		return c.boolV(fmt.Sprintf("(%s (%s) (! %s %s))", q, strings.Join(decls, " "), b, strings.Join(pats, " ")))
	}
	return c.boolV(fmt.Sprintf("(%s (%s) %s)", q, strings.Join(decls, " "), b))
}

func (vc *VC) nextQ() int {
	vc.nq++
	return vc.nq
}

func (c *specCtx) call(x *SCall) Val {
	vc := c.vc
	argn := func(n int) bool {
		if len(x.Args) != n {
			c.fail("%s expects %d arguments", x.Fun, n)
			return false
		}
		return true
	}
	switch x.Fun {
	case "old":
		if !argn(1) {
			return c.boolV("true")
		}
		c2 := &specCtx{vc: vc, cur: c.old, old: c.old, rc: nil, env: c.oldEnv(), bound: c.bound}
		return c2.eval(x.Args[0])
	case "oldheap":
		// the expression over the entry heap / ghost state, but with the current values of locals (for loop invariants that
		// relate the running state to the entry state, e.g. a recomputed sum to the sum at entry)
		if !argn(1) {
			return c.boolV("true")
		}
		hy := c.old.clone()
		for k, v := range c.cur.locals {
			hy.locals[k] = v
		}
		c2 := &specCtx{vc: vc, cur: hy, old: c.old, rc: c.rc, env: c.env, bound: c.bound}
		return c2.eval(x.Args[0])
	case "cap":
		// capacity of a channel value (ghost chcap, fixed by make(chan T, n))
		if !argn(1) {
			return c.intV("0")
		}
		cv := c.eval(x.Args[0])
		vc.declareFun("chcap", []string{"Int"}, "Int")
		return c.intV(fmt.Sprintf("(chcap %s)", cv.S))
	case "len":
		if !argn(1) {
			return c.intV("0")
		}
		v := c.eval(x.Args[0])
		if v.Ty != nil {
			switch u := v.Ty.Underlying().(type) {
			case *types.Slice:
				_, ln, _ := vc.sliceParts(v)
				if !strings.Contains(v.S, "_q") {
					// type invariant of the slice value (length range); always true, so it may be stated globally
					if f := vc.eng.sorts.rangeFact(v.S, v.Ty, 0); f != "" && !vc.rangeAsserted[f] {
						vc.rangeAsserted[f] = true
						vc.typeFacts = append(vc.typeFacts, f)
					}
				}
				return c.intV(ln)
			case *types.Map:
				return c.intV(fmt.Sprintf("(card_%s %s)", v.Sort, v.S))
			case *types.Array:
				return c.intV(fmt.Sprint(u.Len()))
			}
		}
		if strings.HasPrefix(v.Sort, "Sl_") {
			ln := fmt.Sprintf("(len_%s %s)", v.Sort, v.S)
			f := fmt.Sprintf("(>= %s 0)", ln)
			if !strings.Contains(v.S, "_q") && !vc.rangeAsserted[f] {
				vc.rangeAsserted[f] = true
				vc.typeFacts = append(vc.typeFacts, f)
			}
			return c.intV(ln)
		}
		return c.fail("len of %s", v.Sort)
	case "sum":
		// sum(f, s, n) = f(s[0]) + ... + f(s[n-1])
		if !argn(3) {
			return c.intV("0")
		}
		fid, ok := x.Args[0].(*SIdent)
		if !ok {
			return c.fail("sum: first argument must be a ghost fn or a ghost map")
		}
		sv := c.eval(x.Args[1])
		n := c.eval(x.Args[2])
		arr := sv.S
		if sv.Ty != nil {
			if _, isSl := sv.Ty.Underlying().(*types.Slice); isSl {
				arr, _, _ = vc.sliceParts(sv)
			}
		}
		if vc.eng.ufuns[fid.Name] == nil {
			// state-dependent measure: a ghost map ref -> int, or a one-parameter pred over the heap
			if g, isGhost := vc.eng.specs.Ghosts[fid.Name]; isGhost && vc.eng.specSort(g.Type) == "(Array Int Int)" {
				vc.needPsumG()
				return c.intV(fmt.Sprintf("(psumg %s %s %s)", vc.ghostGet(c.cur, fid.Name), arr, n.S))
			}
			if p, isPred := vc.eng.specs.Preds[fid.Name]; isPred && len(p.Params) == 1 {
				vc.needPsumG()
				return c.intV(fmt.Sprintf("(psumg %s %s %s)", vc.measureArray(c.cur, fid.Name), arr, n.S))
			}
			return c.fail("sum: first argument must be a ghost fn, a ghost map[ref]int or a one-parameter pred")
		}
		vc.needPsum(fid.Name)
		return c.intV(fmt.Sprintf("(psum_%s %s %s)", fid.Name, arr, n.S))
	case "upd":
		// upd(m, k, v): map / array update
		if !argn(3) {
			return c.boolV("true")
		}
		m := c.eval(x.Args[0])
		k := c.eval(x.Args[1])
		v := c.eval(x.Args[2])
		if strings.HasPrefix(m.Sort, "(Array ") {
			ks, es := arrayKeySort(m.Sort), arrayElemSort(m.Sort)
			if v.Ty != nil && isNilType(v.Ty) {
				v = Val{S: vc.eng.sorts.zeroOfSort(es, nil), Sort: es}
			}
			if k.Sort != ks || v.Sort != es {
				return c.fail("upd: sort mismatch (%s,%s) into %s", k.Sort, v.Sort, m.Sort)
			}
			return Val{S: fmt.Sprintf("(store %s %s %s)", m.S, k.S, v.S), Sort: m.Sort, Ty: m.Ty}
		}
		if m.Ty != nil {
			if mt, ok := m.Ty.Underlying().(*types.Map); ok {
				k = vc.convert(c.cur, k, mt.Key())
				v = vc.convert(c.cur, v, mt.Elem())
				return vc.mapStore(m, k, v)
			}
		}
		return c.fail("upd on %s", m.Sort)
	case "add", "del":
		if !argn(2) {
			return c.boolV("true")
		}
		m := c.eval(x.Args[0])
		k := c.eval(x.Args[1])
		if strings.HasPrefix(m.Sort, "(Array ") && arrayElemSort(m.Sort) == "Bool" {
			b := "true"
			if x.Fun == "del" {
				b = "false"
			}
			return Val{S: fmt.Sprintf("(store %s %s %s)", m.S, k.S, b), Sort: m.Sort}
		}
		if m.Ty != nil && x.Fun == "del" {
			if mt, ok := m.Ty.Underlying().(*types.Map); ok {
				k = vc.convert(c.cur, k, mt.Key())
				return vc.mapDelete(m, k)
			}
		}
		return c.fail("%s on %s", x.Fun, m.Sort)
	case "dom":
		m := c.eval(x.Args[0])
		if m.Ty != nil {
			if mt, ok := m.Ty.Underlying().(*types.Map); ok {
				return Val{S: fmt.Sprintf("(dom_%s %s)", m.Sort, m.S), Sort: "(Array " + vc.sortOf(mt.Key()) + " Bool)"}
			}
		}
		return c.fail("dom of %s", m.Sort)
	case "vals":
		m := c.eval(x.Args[0])
		if m.Ty != nil {
			if mt, ok := m.Ty.Underlying().(*types.Map); ok {
				return Val{S: fmt.Sprintf("(val_%s %s)", m.Sort, m.S), Sort: "(Array " + vc.sortOf(mt.Key()) + " " + vc.sortOf(mt.Elem()) + ")"}
			}
		}
		return c.fail("vals of %s", m.Sort)
	case "emptyset":
		t := c.lookupType(x.Args[0].(*SIdent).Name)
		if t == nil {
			return c.fail("emptyset: unknown type")
		}
		ks := vc.sortOf(t)
		return Val{S: fmt.Sprintf("((as const (Array %s Bool)) false)", ks), Sort: "(Array " + ks + " Bool)"}
	case "origin":
		v := c.eval(x.Args[0])
		_, _, org := vc.sliceParts(v)
		return c.intV(org)
	case "has":
		if !argn(2) {
			return c.boolV("true")
		}
		m := c.eval(x.Args[0])
		k := c.eval(x.Args[1])
		if m.Ty != nil {
			if mt, ok := m.Ty.Underlying().(*types.Map); ok {
				if k.Ty != nil && !types.Identical(k.Ty, mt.Key()) {
					k = vc.convert(c.cur, k, mt.Key())
				}
				return c.boolV(fmt.Sprintf("(select (dom_%s %s) %s)", m.Sort, m.S, k.S))
			}
		}
		if strings.HasPrefix(m.Sort, "(Array ") {
			return c.boolV(fmt.Sprintf("(select %s %s)", m.S, k.S))
		}
		return c.fail("has() on %s", m.Sort)
	case "ite":
		if !argn(3) {
			return c.boolV("true")
		}
		cnd := c.eval(x.Args[0])
		a := c.eval(x.Args[1])
		b := c.eval(x.Args[2])
		if a.Ty != nil && isNilType(a.Ty) {
			a = Val{S: vc.eng.sorts.zeroOfSort(b.Sort, b.Ty), Ty: b.Ty, Sort: b.Sort}
		}
		if b.Ty != nil && isNilType(b.Ty) {
			b = Val{S: vc.eng.sorts.zeroOfSort(a.Sort, a.Ty), Ty: a.Ty, Sort: a.Sort}
		}
		return Val{S: fmt.Sprintf("(ite %s %s %s)", cnd.S, a.S, b.S), Ty: a.Ty, Sort: a.Sort}
	case "is":
		v := c.eval(x.Args[0])
		t := c.lookupType(x.Args[1].(*SStr).V)
		if t == nil {
			return c.fail("unknown type %s", x.Args[1].(*SStr).V)
		}
		_, ok := vc.typeAssert(c.cur, v, t)
		return c.boolV(ok)
	case "as":
		v := c.eval(x.Args[0])
		t := c.lookupType(x.Args[1].(*SStr).V)
		if t == nil {
			return c.fail("unknown type %s", x.Args[1].(*SStr).V)
		}
		r, _ := vc.typeAssert(c.cur, v, t)
		return r
	case "errAs":
		v := c.eval(x.Args[0])
		t := c.lookupType(x.Args[1].(*SStr).V)
		if t == nil {
			return c.fail("unknown type in errAs")
		}
		return c.boolV(vc.errAsTerm(c.cur, v.S, t))
	case "zero":
		t := c.lookupType(x.Args[0].(*SStr).V)
		if t == nil {
			return c.fail("unknown type")
		}
		return vc.mk(vc.eng.sorts.zero(t), t)
	case "tid":
		t := c.lookupType(x.Args[0].(*SStr).V)
		if t == nil {
			return c.fail("unknown type")
		}
		return c.intV(fmt.Sprint(vc.eng.sorts.tid(t)))
	case "dyntype":
		vc.needDyntype()
		v := c.eval(x.Args[0])
		return c.intV(fmt.Sprintf("(dyntype %s)", v.S))
	case "fresh":
		v := c.eval(x.Args[0])
		return c.boolV(fmt.Sprintf("(and (> %s 0) (not (select %s %s)) (select %s %s))", v.S, c.old.alloc, v.S, c.cur.alloc, v.S))
	case "allocatedBefore":
		v := c.eval(x.Args[0])
		return c.boolV(fmt.Sprintf("(select %s %s)", c.old.alloc, v.S))
	case "allocated":
		v := c.eval(x.Args[0])
		return c.boolV(fmt.Sprintf("(select %s %s)", c.cur.alloc, v.S))
	case "iface":
		// iface(x): box / convert a concrete value to its interface representation
		v := c.eval(x.Args[0])
		if v.Ty == nil {
			return v
		}
		if _, ok := v.Ty.Underlying().(*types.Pointer); ok || types.IsInterface(v.Ty) {
			return Val{S: v.S, Ty: types.NewInterfaceType(nil, nil), Sort: "Int"}
		}
		return Val{S: vc.box(c.cur, v), Ty: types.NewInterfaceType(nil, nil), Sort: "Int"}
	case "heapeq":
		// heapeq(T.f): field f of every object of type T is unchanged since old
		return c.heapEq(x, false)
	case "oldeq":
		// oldeq(T.f): field f of every object of type T that was allocated at entry is unchanged since old
		return c.heapEq(x, true)
	case "sameExcept":
		return c.sameExcept(x)
	case "bit":
		// bit(x, k): bit k (constant) of the non-negative integer x is set
		if !argn(2) {
			return c.boolV("true")
		}
		xv := c.eval(x.Args[0])
		kv := c.eval(x.Args[1])
		k, ok := smallConst(kv.S)
		if !ok {
			return c.fail("bit: second argument must be a small constant")
		}
		p := new(big.Int).Exp(big.NewInt(2), big.NewInt(k), nil)
		return c.boolV(fmt.Sprintf("(= (mod (div %s %s) 2) 1)", xv.S, p.String()))
	case "be64", "be32", "be16":
		// big-endian value of the bytes arr[off .. off+n)
		if !argn(2) {
			return c.intV("0")
		}
		av := c.eval(x.Args[0])
		off := c.eval(x.Args[1])
		arr := av.S
		if av.Ty != nil {
			if _, isSl := av.Ty.Underlying().(*types.Slice); isSl {
				arr, _, _ = vc.sliceParts(av)
			}
		} else if strings.HasPrefix(av.Sort, "Sl_") {
			arr = fmt.Sprintf("(arr_%s %s)", av.Sort, av.S)
		}
		n := map[string]int64{"be64": 8, "be32": 4, "be16": 2}[x.Fun]
		return c.intV(vc.beValue(arr, off.S, n))
	case "u64":
		v := c.eval(x.Args[0])
		return c.intV(v.S)
	}
	// type conversion T(x)
	if t := c.lookupType(x.Fun); t != nil && len(x.Args) == 1 {
		v := c.eval(x.Args[0])
		if v.Ty != nil {
			if vc.sortOf(t) == v.Sort {
				return Val{S: v.S, Ty: t, Sort: v.Sort}
			}
			if r, ok := vc.structConv(v, t); ok {
				return r
			}
		}
		return c.fail("conversion %s(...) not supported in specs", x.Fun)
	}
	// uninterpreted spec functions
	if uf, ok := vc.eng.ufuns[x.Fun]; ok {
		return c.ufunCall(uf, x)
	}
	// predicates (macro expansion)
	if p, ok := vc.eng.specs.Preds[x.Fun]; ok {
		if len(p.Params) != len(x.Args) {
			return c.fail("pred %s expects %d args", p.Name, len(p.Params))
		}
		if c.depth > 12 {
			return c.fail("pred expansion too deep at %s", p.Name)
		}
		args := make([]Val, len(x.Args))
		for i, a := range x.Args {
			args[i] = c.eval(a)
		}
		saved := c.bound
		nb := map[string]Val{}
		for i, prm := range p.Params {
			nb[prm.Name] = args[i]
		}
		c.bound = nb
		c.depth++
		savedEnv := c.env
		savedRc := c.rc
		// preds only see their parameters, ghosts and package scope
		c.env = map[string]Val{}
		c.rc = nil
		r := c.eval(p.Body)
		c.env = savedEnv
		c.rc = savedRc
		c.depth--
		c.bound = saved
		return r
	}
	return c.fail("unknown spec function %s", x.Fun)
}

func (c *specCtx) oldEnv() map[string]Val {
	return c.env
}

// heapeq(T.f [, T.g ...]) : listed heap fields unchanged between old and current state
func (c *specCtx) heapEq(x *SCall, allocatedOnly bool) Val {
	vc := c.vc
	var parts []string
	for _, a := range x.Args {
		sel, ok := a.(*SSel)
		if !ok {
			return c.fail("heapeq expects T.f")
		}
		tn, ok := sel.X.(*SIdent)
		if !ok {
			return c.fail("heapeq expects T.f")
		}
		t := c.lookupType(tn.Name)
		n, s := namedStructOf(t)
		if n == nil {
			return c.fail("heapeq: %s is not a struct type", tn.Name)
		}
		for i := 0; i < s.NumFields(); i++ {
			f := s.Field(i)
			if sel.Name == "all" || sel.Name == f.Name() {
				key := vc.heapKey(n, f.Name())
				es := vc.sortOf(f.Type())
				a1 := vc.heapGet(c.cur, key, es)
				a0 := vc.heapGet(c.old, key, es)
				if a1 != a0 {
					if allocatedOnly {
						parts = append(parts, fmt.Sprintf("(forall ((r_oe Int)) (! (=> (select alloc0 r_oe) (= (select %s r_oe) (select %s r_oe))) :pattern ((select %s r_oe))))", a1, a0, a1))
					} else {
						parts = append(parts, fmt.Sprintf("(= %s %s)", a1, a0))
					}
				}
			}
		}
	}
	if len(parts) == 0 {
		return c.boolV("true")
	}
	return c.boolV("(and " + strings.Join(parts, " ") + " true)")
}

// sameExcept(T.f, x, y...) : field f of every object of type T other than x, y... is unchanged
func (c *specCtx) sameExcept(x *SCall) Val {
	vc := c.vc
	if len(x.Args) < 1 {
		return c.fail("sameExcept needs arguments")
	}
	sel, ok := x.Args[0].(*SSel)
	if !ok {
		return c.fail("sameExcept expects T.f first")
	}
	tn, _ := sel.X.(*SIdent)
	if tn == nil {
		return c.fail("sameExcept expects T.f first")
	}
	t := c.lookupType(tn.Name)
	n, s := namedStructOf(t)
	if n == nil {
		return c.fail("sameExcept: not a struct type")
	}
	var exc []string
	for _, a := range x.Args[1:] {
		exc = append(exc, c.eval(a).S)
	}
	var parts []string
	for i := 0; i < s.NumFields(); i++ {
		f := s.Field(i)
		if sel.Name == "all" || sel.Name == f.Name() {
			key := vc.heapKey(n, f.Name())
			es := vc.sortOf(f.Type())
			a1 := vc.heapGet(c.cur, key, es)
			a0 := vc.heapGet(c.old, key, es)
			if a1 == a0 {
				continue
			}
			var conds []string
			for _, e := range exc {
				conds = append(conds, fmt.Sprintf("(not (= r_se %s))", e))
			}
			cond := "true"
			if len(conds) > 0 {
				cond = "(and " + strings.Join(conds, " ") + " true)"
			}
			parts = append(parts, fmt.Sprintf("(forall ((r_se Int)) (! (=> %s (= (select %s r_se) (select %s r_se))) :pattern ((select %s r_se))))", cond, a1, a0, a1))
		}
	}
	if len(parts) == 0 {
		return c.boolV("true")
	}
	return c.boolV("(and " + strings.Join(parts, " ") + " true)")
}

type UFun struct {
	Name   string
	Params []SQVar
	Ret    string
}

func (c *specCtx) ufunCall(uf *UFun, x *SCall) Val {
	vc := c.vc
	if len(uf.Params) != len(x.Args) {
		return c.fail("%s expects %d args", uf.Name, len(uf.Params))
	}
	var as []string
	var sorts []string
	for i, a := range x.Args {
		v := c.eval(a)
		want := vc.eng.specSort(uf.Params[i].Type)
		if v.Sort != want {
			// implicit boxing for interface-typed params
			if want == "Int" && v.Ty != nil && v.Sort != "Int" {
				v = Val{S: vc.box(c.cur, v), Sort: "Int"}
			} else {
				return c.fail("%s: argument %d has sort %s, want %s", uf.Name, i, v.Sort, want)
			}
		}
		as = append(as, v.S)
		sorts = append(sorts, want)
	}
	rs := vc.eng.specSort(uf.Ret)
	vc.declareFun("uf_"+uf.Name, sorts, rs)
	s := "uf_" + uf.Name
	if len(as) > 0 {
		s = fmt.Sprintf("(uf_%s %s)", uf.Name, strings.Join(as, " "))
	}
	return Val{S: s, Sort: rs, Ty: vc.eng.specType(uf.Ret)}
}

func (vc *VC) ghostGet(st *State, name string) string {
	if t, ok := st.ghost[name]; ok {
		return t
	}
	return vc.ghostInit(name)
}


// needPsum declares the prefix-sum function of measure f with its (pattern-guarded) axioms.
func (vc *VC) needPsum(f string) {
	name := "psum_" + f
	if vc.declared[name] {
		return
	}
	vc.declareFun(name, []string{"(Array Int Int)", "Int"}, "Int")
	vc.declareFun("uf_"+f, []string{"Int"}, "Int")
	ax := []string{
		fmt.Sprintf("(forall ((a (Array Int Int))) (! (= (%s a 0) 0) :pattern ((%s a 0))))", name, name),
		fmt.Sprintf("(forall ((a (Array Int Int)) (i Int)) (! (=> (>= i 0) (= (%s a (+ i 1)) (+ (%s a i) (uf_%s (select a i))))) :pattern ((%s a i) (select a i))))", name, name, f, name),
		fmt.Sprintf("(forall ((a (Array Int Int)) (i Int) (j Int)) (! (=> (and (<= 0 i) (<= i j)) (<= (%s a i) (%s a j))) :pattern ((%s a i) (%s a j))))", name, name, name, name),
		fmt.Sprintf("(forall ((a (Array Int Int)) (k Int) (v Int) (n Int)) (! (= (%s (store a k v) n) (+ (%s a n) (ite (and (<= 0 k) (< k n)) (- (uf_%s v) (uf_%s (select a k))) 0))) :pattern ((%s (store a k v) n))))", name, name, f, f, name),
	}
	for _, a := range ax {
		vc.globalAxioms = append(vc.globalAxioms, "(assert "+a+")")
	}
	vc.noteAssumption("prefix-sum axioms for measure " + f + " (definition, monotonicity for non-negative measures, update lemma; proved by induction in /verif/lemmas)")
}

// sumFacts adds ground consequences of the sum lemmas for every measure in use. ps builds a prefix-sum term, fv applies the
// measure to one element.
func (vc *VC) sumFacts(st *State, elemSort string, mk func(ps func(arr, n string) string, fv func(v string) string) []string) {
	if elemSort != "Int" || vc.bytesCtx > 0 {
		return // measures are over references (storables, elements); byte / integer contents have none
	}
	for _, f := range vc.eng.measures {
		if vc.eng.ufuns[f] != nil {
			vc.needPsum(f)
			name := "psum_" + f
			ff := f
			ps := func(arr, n string) string { return fmt.Sprintf("(%s %s %s)", name, arr, n) }
			fv := func(v string) string { return fmt.Sprintf("(uf_%s %s)", ff, v) }
			for _, fact := range mk(ps, fv) {
				vc.assume(st, fact)
			}
			continue
		}
		if p, ok := vc.eng.specs.Preds[f]; ok && len(p.Params) == 1 {
			vc.needPsumG()
			// the facts are pure consequences of the prefix-sum definition, so they hold for every measure; they are stated for the
			// measure of the current heap and for the measure of the entry heap (the one the pre-condition speaks about). Stating them
			// for every heap version met so far made some queries two orders of magnitude slower.
			Es := []string{vc.measureArray(st, f)}
			if vc.entry != nil && os.Getenv("GOVC_NOENTRYSUM") == "" {
				if e0 := vc.measureArray(vc.entry, f); e0 != Es[0] {
					Es = append(Es, e0)
				}
			}
			for _, E := range Es {
				E := E
				ps := func(arr, n string) string { return fmt.Sprintf("(psumg %s %s %s)", E, arr, n) }
				fv := func(v string) string { return fmt.Sprintf("(nn (select %s %s))", E, v) }
				for _, fact := range mk(ps, fv) {
					vc.assume(st, fact)
				}
			}
			continue
		}
		if g, ok := vc.eng.specs.Ghosts[f]; ok && vc.eng.specSort(g.Type) == "(Array Int Int)" {
			vc.needPsumG()
			E := vc.ghostGet(st, f)
			ps := func(arr, n string) string { return fmt.Sprintf("(psumg %s %s %s)", E, arr, n) }
			fv := func(v string) string { return fmt.Sprintf("(nn (select %s %s))", E, v) }
			for _, fact := range mk(ps, fv) {
				vc.assume(st, fact)
			}
		}
	}
}

// needPsumG: prefix sums over a state-dependent measure E : ref -> int (negative values count as 0)
func (vc *VC) needPsumG() {
	if vc.declared["psumg"] {
		return
	}
	vc.declareFun("psumg", []string{"(Array Int Int)", "(Array Int Int)", "Int"}, "Int")
	vc.declareFun("psumg_diff", []string{"(Array Int Int)", "(Array Int Int)", "(Array Int Int)", "Int"}, "Int")
	vc.declareFun("psumg_diff1", []string{"(Array Int Int)", "(Array Int Int)", "(Array Int Int)", "Int", "Int"}, "Int")
	vc.declared["nn"] = true
	vc.decls = append(vc.decls, "(define-fun nn ((x Int)) Int (ite (< x 0) 0 x))")
	ax := []string{
		"(forall ((E (Array Int Int)) (a (Array Int Int))) (! (= (psumg E a 0) 0) :pattern ((psumg E a 0))))",
		"(forall ((E (Array Int Int)) (a (Array Int Int)) (i Int)) (! (=> (>= i 0) (= (psumg E a (+ i 1)) (+ (psumg E a i) (nn (select E (select a i)))))) :pattern ((psumg E a i) (select a i))))",
		"(forall ((E (Array Int Int)) (a (Array Int Int)) (i Int) (j Int)) (! (=> (and (<= 0 i) (<= i j)) (<= (psumg E a i) (psumg E a j))) :pattern ((psumg E a i) (psumg E a j))))",
		"(forall ((E (Array Int Int)) (a (Array Int Int)) (k Int) (v Int) (n Int)) (! (= (psumg E (store a k v) n) (+ (psumg E a n) (ite (and (<= 0 k) (< k n)) (- (nn (select E v)) (nn (select E (select a k)))) 0))) :pattern ((psumg E (store a k v) n))))",
		// frame: two measures that agree on the first n elements of a give the same prefix sum
		"(forall ((E (Array Int Int)) (F (Array Int Int)) (a (Array Int Int)) (n Int)) (! (or (= (psumg E a n) (psumg F a n)) (and (<= 0 (psumg_diff E F a n)) (< (psumg_diff E F a n) n) (not (= (select E (select a (psumg_diff E F a n))) (select F (select a (psumg_diff E F a n))))))) :pattern ((psumg E a n) (psumg F a n))))",
		// frame with one replaced position: the sum over a with position k replaced by v under E, against the sum over a under F,
		// when E and F agree on every other one of the first n elements of a
		"(forall ((E (Array Int Int)) (F (Array Int Int)) (a (Array Int Int)) (k Int) (v Int) (n Int)) (! (=> (and (<= 0 k) (< k n)) (or (= (psumg E (store a k v) n) (+ (- (psumg F a n) (nn (select F (select a k)))) (nn (select E v)))) (and (<= 0 (psumg_diff1 E F a k n)) (< (psumg_diff1 E F a k n) n) (not (= (psumg_diff1 E F a k n) k)) (not (= (select E (select a (psumg_diff1 E F a k n))) (select F (select a (psumg_diff1 E F a k n)))))))) :pattern ((psumg E (store a k v) n) (psumg F a n))))",
	}
	for _, a := range ax {
		vc.globalAxioms = append(vc.globalAxioms, "(assert "+a+")")
	}
	vc.noteAssumption("prefix-sum axioms for state-dependent measures (definition, monotonicity, update and frame lemmas; proved by induction in /verif/lemmas)")
}

// errAsTerm: "errors.As(err, &target) with target of type t succeeds"
func (vc *VC) errAsTerm(st *State, errS string, t types.Type) string {
	tid := vc.eng.sorts.tid(t)
	fn := fmt.Sprintf("errAs_%d", tid)
	if !vc.declared[fn] {
		vc.declareFun(fn, []string{"Int"}, "Bool")
		vc.needDyntype()
		vc.globalAxioms = append(vc.globalAxioms, fmt.Sprintf("(assert (forall ((e Int)) (! (=> (and (not (= e 0)) (= (dyntype e) %d)) (%s e)) :pattern ((%s e)) :pattern ((dyntype e)))))", tid, fn, fn))
		vc.globalAxioms = append(vc.globalAxioms, fmt.Sprintf("(assert (not (%s 0)))", fn))
	}
	return fmt.Sprintf("(%s %s)", fn, errS)
}


// measureArray: the array r -> P(r) of a one-parameter integer pred P evaluated in state st (memoised per distinct heap view)
func (vc *VC) measureArray(st *State, pred string) string {
	p := vc.eng.specs.Preds[pred]
	c := &specCtx{vc: vc, cur: st, old: vc.entry, bound: map[string]Val{}}
	var pt types.Type
	if t := vc.eng.lookupType(p.Params[0].Type); t != nil {
		pt = t
	}
	c.bound[p.Params[0].Name] = Val{S: "r_m", Ty: pt, Sort: "Int"}
	c.env = map[string]Val{}
	body := c.eval(p.Body)
	key := pred + "|" + body.S
	if vc.measureMemo == nil {
		vc.measureMemo = map[string]string{}
	}
	if e, ok := vc.measureMemo[key]; ok {
		return e
	}
	e := vc.fresh("M_"+pred, "(Array Int Int)")
	d := fmt.Sprintf("(assert (forall ((r_m Int)) (! (= (select %s r_m) %s) :pattern ((select %s r_m)))))", e, body.S, e)
	vc.defs = append(vc.defs, d)
	vc.defOf[e] = d
	vc.measureMemo[key] = e
	return e
}
