package main

// Lemmas over contracts (no code): `lemma name(params) [induction k] requires ... ensures ...`

import (
	"fmt"
	"go/types"
)

type lemmaResult struct {
	Name       string
	Obls       []*Obligation
	Discharged int
}

func verifyLemma(eng *Engine, lm *Lemma, opts solveOpts) *lemmaResult {
	lr := &lemmaResult{Name: lm.Name}
	fi := &FuncInfo{Key: "lemma:" + lm.Name, Sig: types.NewSignatureType(nil, nil, nil, nil, nil, false)}
	vc := newVC(eng, fi, nil)
	st := &State{locals: map[types.Object]string{}, heap: map[string]string{}, globals: map[types.Object]string{}, ghost: map[string]string{}}
	vc.declare("alloc0", "(Array Int Bool)")
	st.alloc = "alloc0"
	vc.needDyntype()
	vc.frames = []*frame{{fn: fi}}
	vc.entry = st.clone()
	func() {
		defer func() {
			if r := recover(); r != nil {
				vc.unsupported = append(vc.unsupported, fmt.Sprintf("engine panic: %v", r))
			}
		}()
		for _, ax := range eng.specs.Axioms {
			t := vc.specBool(st, vc.entry, ax.Expr, nil, nil)
			vc.axiomFacts = append(vc.axiomFacts, t)
		}
		if lm.Trusted {
			return
		}
		mkEnv := func(suffix string, override map[string]string) (map[string]Val, []string) {
			env := map[string]Val{}
			var facts []string
			for _, p := range lm.Params {
				var v Val
				name := "lp_" + sanitize(p.Name) + suffix
				switch p.Type {
				case "int", "Int":
					v = Val{S: name, Ty: types.Typ[types.UntypedInt], Sort: "Int"}
				case "bool":
					v = Val{S: name, Ty: types.Typ[types.Bool], Sort: "Bool"}
				default:
					t := eng.lookupType(p.Type)
					if t == nil {
						s := eng.specSort(p.Type)
						v = Val{S: name, Sort: s}
					} else {
						v = vc.mk(name, t)
						if f := eng.sorts.rangeFact(name, t, 0); f != "" {
							facts = append(facts, f)
						}
					}
				}
				vc.declare(name, v.Sort)
				if o, ok := override[p.Name]; ok {
					v.S = o
				}
				env[p.Name] = v
			}
			return env, facts
		}
		emitWith := func(env map[string]Val, facts []string, extra []string, tag string) {
			s2 := st.clone()
			for _, f := range facts {
				vc.assume(s2, f)
			}
			for _, f := range extra {
				vc.assume(s2, f)
			}
			for _, rq := range lm.Requires {
				vc.assume(s2, vc.specBool(s2, vc.entry, rq.Expr, nil, env))
			}
			for _, en := range lm.Ensures {
				g := vc.specBool(s2, vc.entry, en.Expr, nil, env)
				clause := fmt.Sprintf("lemma:%s/ensures%d", lm.Name, en.Ord)
				vc.emit(s2, "lemma", clause, tag, g, 0, en.Src)
			}
		}
		if lm.Induction == "" {
			env, facts := mkEnv("", nil)
			emitWith(env, facts, nil, "")
			return
		}
		k := "lp_" + sanitize(lm.Induction)
		// base
		envB, factsB := mkEnv("", map[string]string{lm.Induction: "0"})
		emitWith(envB, factsB, nil, "base")
		// step: hypothesis at k-1 (other parameters universally quantified by being fresh but shared: simple induction)
		envH, _ := mkEnv("", map[string]string{lm.Induction: "(- " + k + " 1)"})
		hyp := "true"
		{
			var reqs, enss []string
			for _, rq := range lm.Requires {
				reqs = append(reqs, vc.specBool(st, vc.entry, rq.Expr, nil, envH))
			}
			for _, en := range lm.Ensures {
				enss = append(enss, vc.specBool(st, vc.entry, en.Expr, nil, envH))
			}
			r := "true"
			if len(reqs) > 0 {
				r = "(and " + join(reqs) + " true)"
			}
			hyp = fmt.Sprintf("(=> %s (and %s true))", r, join(enss))
		}
		envS, factsS := mkEnv("", nil)
		emitWith(envS, factsS, []string{fmt.Sprintf("(> %s 0)", k), hyp}, "step")
	}()
	if len(vc.unsupported) > 0 {
		o := &Obligation{Name: "lemma:" + lm.Name + "/wellformed", Clause: "lemma:" + lm.Name + "/wellformed", Kind: "lemma", Result: "error", Output: fmt.Sprint(vc.unsupported)}
		lr.Obls = append(lr.Obls, o)
		return lr
	}
	discharge(vc, vc.obls, opts)
	lr.Obls = vc.obls
	for _, o := range vc.obls {
		if o.Result == "unsat" {
			lr.Discharged++
		}
	}
	return lr
}

func join(xs []string) string {
	s := ""
	for i, x := range xs {
		if i > 0 {
			s += " "
		}
		s += x
	}
	return s
}
