package main

// Counterexample replay: for safety obligations (bounds / nil / arith / no-panic / assert-type) of functions whose inputs can be
// rebuilt from a solver model (byte slices, integers, booleans, small byte arrays, SlabID; every other parameter is passed as its
// zero value), a Go test is generated that calls the REAL function with the model's input through `go test -overlay`, and the
// violation is confirmed when the call panics. Functional (post-condition) obligations are not replayed: they are reported with
// no-failing-input-found and the solver output.

import (
	"bytes"
	"context"
	"encoding/json"
	"fmt"
	"go/types"
	"os"
	"os/exec"
	"path/filepath"
	"regexp"
	"strconv"
	"strings"
	"time"
)

type replayTest struct {
	blocking  string
	Source    string
	Result    string
	Input     any
	Confirmed bool
}

func replayableKind(k string) bool {
	switch k {
	case "bounds", "nil", "no-panic", "assert-type", "div0":
		return true
	}
	return false
}

type paramPlan struct {
	name  string
	goTy  string
	kind  string // bytes | int | bool | small | slabid | zero
	width int64
}

func planParams(eng *Engine, fi *FuncInfo) ([]paramPlan, bool) {
	var out []paramPlan
	sig := fi.Sig
	if sig.Recv() != nil {
		return nil, false
	}
	q := func(p *types.Package) string {
		if p == eng.pkg.Types {
			return ""
		}
		return p.Name()
	}
	for i := 0; i < sig.Params().Len(); i++ {
		p := sig.Params().At(i)
		t := p.Type()
		pp := paramPlan{name: p.Name(), goTy: types.TypeString(t, q)}
		switch u := t.Underlying().(type) {
		case *types.Slice:
			if b, ok := u.Elem().Underlying().(*types.Basic); ok && b.Kind() == types.Uint8 {
				pp.kind = "bytes"
			} else {
				pp.kind = "zero"
			}
		case *types.Basic:
			switch {
			case u.Info()&types.IsInteger != 0:
				pp.kind = "int"
			case u.Info()&types.IsBoolean != 0:
				pp.kind = "bool"
			default:
				pp.kind = "zero"
			}
		case *types.Array:
			if isByteArraySmall(u) {
				pp.kind = "small"
				pp.width = u.Len()
			} else {
				pp.kind = "zero"
			}
		case *types.Struct:
			if pp.goTy == "SlabID" {
				pp.kind = "slabid"
			} else {
				pp.kind = "zero"
			}
		default:
			pp.kind = "zero"
		}

		out = append(out, pp)
	}
	return out, true
}

var reVal = regexp.MustCompile(`\(\s*([^()\s][^\s]*|\([^()]*(?:\([^()]*\)[^()]*)*\))\s+(\(- \d+\)|-?\d+|true|false)\s*\)`)

func getValues(query string, terms []string, dir string) (map[string]string, string) {
	file := filepath.Join(dir, "replay_getvalue.smt2")
	body := "(set-option :produce-models true)\n" + query + "(check-sat)\n(get-value (" + strings.Join(terms, " ") + "))\n"
	os.WriteFile(file, []byte(body), 0o644)
	ctx, cancel := context.WithTimeout(context.Background(), 30*time.Second)
	defer cancel()
	cmd := exec.CommandContext(ctx, "z3-new", "-T:20", file)
	var out bytes.Buffer
	cmd.Stdout = &out
	cmd.Stderr = &out
	cmd.Run()
	txt := out.String()
	if !strings.HasPrefix(strings.TrimSpace(txt), "sat") {
		return nil, txt
	}
	vals := map[string]string{}
	// z3 prints ((term value) (term value) ...); match pairwise against the requested terms in order
	rest := txt[strings.Index(txt, "sat")+3:]
	for _, t := range terms {
		i := strings.Index(rest, t)
		if i < 0 {
			continue
		}
		after := strings.TrimSpace(rest[i+len(t):])
		// value ends at the closing paren of the pair
		v := after
		if strings.HasPrefix(v, "(- ") {
			j := strings.Index(v, ")")
			v = "-" + strings.TrimSpace(v[3:j])
		} else {
			j := strings.IndexAny(v, ") \n")
			if j >= 0 {
				v = v[:j]
			}
		}
		vals[t] = v
		rest = rest[i+len(t):]
	}
	return vals, txt
}

// tryReplay turns a solver model into a Go test against the real code where a builder exists for the function.
func tryReplay(eng *Engine, cs *clauseStatus, o *Obligation) (*replayTest, bool) {
	if !replayableKind(o.Kind) || o.Query == "" {
		return nil, false
	}
	// several models: prefer short inputs, and block scalar parameter values of attempts that did not reproduce
	orig := o.Query
	defer func() { o.Query = orig }()
	extra := ""
	var last *replayTest
	for attempt := 0; attempt < 5; attempt++ {
		o.Query = orig + extra
		rt, ok := replayAttempt(eng, cs, o, attempt == 0)
		if !ok {
			return last, last != nil
		}
		last = rt
		if rt.Confirmed || rt.blocking == "" {
			return rt, true
		}
		extra += rt.blocking
	}
	return last, last != nil
}

func replayAttempt(eng *Engine, cs *clauseStatus, o *Obligation, preferShort bool) (*replayTest, bool) {
	base := cs.Func
	if i := strings.Index(base, "@"); i >= 0 {
		base = base[:i]
	}
	fi := eng.funcs[base]
	if fi == nil || fi.Obj == nil {
		return nil, false
	}
	plan, ok := planParams(eng, fi)
	if !ok {
		return nil, false
	}
	dir := mkScratch()
	defer os.RemoveAll(dir)
	var terms []string
	for _, p := range plan {
		n := "p_" + sanitize(p.name)
		switch p.kind {
		case "bytes":
			terms = append(terms, fmt.Sprintf("(len_Sl_Int %s)", n))
		case "int", "small":
			terms = append(terms, n)
		case "bool":
			terms = append(terms, n)
		case "slabid":
			terms = append(terms, fmt.Sprintf("(S_SlabID__address %s)", n), fmt.Sprintf("(S_SlabID__index %s)", n))
		}
	}
	// only terms whose constant is declared in the query can be evaluated
	var usable []string
	for _, t := range terms {
		name := t
		if strings.HasPrefix(t, "(") {
			f := strings.Fields(strings.Trim(t, "()"))
			name = f[len(f)-1]
		}
		if strings.Contains(o.Query, "(declare-const "+name+" ") {
			usable = append(usable, t)
		}
	}
	vals := map[string]string{}
	if len(usable) > 0 {
		var raw string
		// prefer short byte inputs when the failure admits one
		short := ""
		for _, t := range usable {
			if strings.HasPrefix(t, "(len_Sl_Int ") {
				short += fmt.Sprintf("(assert (<= %s 48))\n", t)
			}
		}
		if short != "" {
			vals, raw = getValues(o.Query+short, usable, dir)
			if vals != nil {
				o.Query = o.Query + short
			}
		}
		if vals == nil {
			vals, raw = getValues(o.Query, usable, dir)
		}
		if vals == nil {
			return &replayTest{Result: "model not available: " + firstLine(raw)}, true
		}
	}
	blocking := ""
	{
		var eqs []string
		for _, p := range plan {
			n := "p_" + sanitize(p.name)
			if (p.kind == "small" || p.kind == "int" || p.kind == "bool") && vals[n] != "" {
				v := vals[n]
				if strings.HasPrefix(v, "-") {
					v = "(- " + v[1:] + ")"
				}
				eqs = append(eqs, fmt.Sprintf("(= %s %s)", n, v))
			}
		}
		if len(eqs) > 0 {
			blocking = "(assert (not (and " + strings.Join(eqs, " ") + ")))\n"
		}
	}
	// byte contents
	input := map[string]any{}
	var args []string
	var setup []string
	for _, p := range plan {
		n := "p_" + sanitize(p.name)
		switch p.kind {
		case "bytes":
			ln := 0
			if v, ok := vals[fmt.Sprintf("(len_Sl_Int %s)", n)]; ok {
				ln, _ = strconv.Atoi(v)
			}
			if ln > 4096 {
				ln = 4096
			}
			var bts []string
			if ln > 0 {
				var bt []string
				for k := 0; k < ln && k < 512; k++ {
					bt = append(bt, fmt.Sprintf("(select (arr_Sl_Int %s) %d)", n, k))
				}
				bv, _ := getValues(o.Query, bt, dir)
				for k := 0; k < ln; k++ {
					b := 0
					if k < len(bt) && bv != nil {
						b, _ = strconv.Atoi(bv[bt[k]])
					}
					bts = append(bts, strconv.Itoa(((b%256)+256)%256))
				}
			}
			setup = append(setup, fmt.Sprintf("\t%s := []byte{%s}", safeName(p.name), strings.Join(bts, ", ")))
			args = append(args, safeName(p.name))
			show := bts
			if len(show) > 64 {
				show = show[:64]
			}
			input[p.name] = map[string]any{"len": ln, "first_bytes": show}
		case "int":
			v := vals[n]
			if v == "" {
				v = "0"
			}
			args = append(args, fmt.Sprintf("%s(%s)", p.goTy, v))
			input[p.name] = v
		case "bool":
			v := vals[n]
			if v == "" {
				v = "false"
			}
			args = append(args, v)
			input[p.name] = v
		case "small":
			v := vals[n]
			if v == "" {
				v = "0"
			}
			x, _ := strconv.ParseUint(v, 10, 64)
			var bs []string
			for i := int64(0); i < p.width; i++ {
				shift := uint(8 * (p.width - 1 - i))
				bs = append(bs, strconv.Itoa(int((x>>shift)&0xff)))
			}
			args = append(args, fmt.Sprintf("%s{%s}", p.goTy, strings.Join(bs, ", ")))
			input[p.name] = bs
		case "slabid":
			args = append(args, "SlabID{}")
		default:
			if strings.HasPrefix(p.goTy, "cbor.DecMode") {
				setup = append(setup, "\tdm, _ := cbor.DecOptions{}.DecMode()")
				args = append(args, "dm")
			} else if strings.HasPrefix(p.goTy, "cbor.EncMode") {
				setup = append(setup, "\tem, _ := cbor.EncOptions{}.EncMode()")
				args = append(args, "em")
			} else {
				setup = append(setup, fmt.Sprintf("\tvar %s %s", safeName(p.name), p.goTy))
				args = append(args, safeName(p.name))
			}
		}
	}
	needCbor := false
	for _, s := range setup {
		if strings.Contains(s, "cbor.") {
			needCbor = true
		}
	}
	imports := "\"testing\"\n"
	if needCbor {
		imports += "\t\"github.com/fxamacker/cbor/v2\"\n"
	}
	nres := fi.Sig.Results().Len()
	lhs := ""
	if nres > 0 {
		lhs = strings.TrimSuffix(strings.Repeat("_, ", nres), ", ") + " = "
	}
	src := fmt.Sprintf(`package atree

// generated by govc: replay of obligation %s (kind %s, %s)
import (
	%s)

func TestGovcReplay(t *testing.T) {
	defer func() {
		if r := recover(); r != nil {
			t.Fatalf("GOVC-REPLAY-PANIC: %%v", r)
		}
	}()
%s
	%s%s(%s)
}
`, o.Name, o.Kind, o.Pos, imports, strings.Join(setup, "\n"), lhs, fi.Obj.Name(), strings.Join(args, ", "))
	testFile := filepath.Join(dir, "zz_govc_replay_test.go")
	os.WriteFile(testFile, []byte(src), 0o644)
	ov := map[string]any{"Replace": map[string]string{filepath.Join(eng.repo, "zz_govc_replay_test.go"): testFile}}
	ob, _ := json.Marshal(ov)
	ovFile := filepath.Join(dir, "ov.json")
	os.WriteFile(ovFile, ob, 0o644)
	ctx, cancel := context.WithTimeout(context.Background(), 180*time.Second)
	defer cancel()
	cmd := exec.CommandContext(ctx, "go", "test", "-overlay", ovFile, "-vet=off", "-count=1", "-timeout", "60s", "-run", "^TestGovcReplay$", ".")
	cmd.Dir = eng.repo
	var out bytes.Buffer
	cmd.Stdout = &out
	cmd.Stderr = &out
	cmd.Run()
	res := out.String()
	confirmed := strings.Contains(res, "GOVC-REPLAY-PANIC")
	if len(res) > 4000 {
		res = res[:4000]
	}
	return &replayTest{Source: src, Result: res, Input: input, Confirmed: confirmed, blocking: blocking}, true
}

func safeName(n string) string {
	if n == "" || n == "_" {
		return "arg"
	}
	return n + "_"
}

func firstLine(s string) string {
	if i := strings.Index(s, "\n"); i >= 0 {
		return s[:i]
	}
	return s
}

func cmdReplay(args []string) {
	if len(args) < 1 {
		usage()
	}
	b, err := os.ReadFile(args[0])
	if err != nil {
		fmt.Fprintln(os.Stderr, err)
		os.Exit(2)
	}
	var rec map[string]any
	if err := json.Unmarshal(b, &rec); err != nil {
		fmt.Fprintln(os.Stderr, err)
		os.Exit(2)
	}
	src, _ := rec["replay_test"].(string)
	if src == "" {
		fmt.Println("no replayable input in this file (obligation:", rec["obligation"], "); solver output:")
		fmt.Println(rec["solver_output"])
		return
	}
	repo := envOr("GOVC_REPO", "/repo")
	dir := mkScratch()
	defer os.RemoveAll(dir)
	testFile := filepath.Join(dir, "zz_govc_replay_test.go")
	os.WriteFile(testFile, []byte(src), 0o644)
	ov := map[string]any{"Replace": map[string]string{filepath.Join(repo, "zz_govc_replay_test.go"): testFile}}
	ob, _ := json.Marshal(ov)
	ovFile := filepath.Join(dir, "ov.json")
	os.WriteFile(ovFile, ob, 0o644)
	cmd := exec.Command("go", "test", "-overlay", ovFile, "-vet=off", "-count=1", "-timeout", "60s", "-run", "^TestGovcReplay$", "-v", ".")
	cmd.Dir = repo
	cmd.Stdout = os.Stdout
	cmd.Stderr = os.Stderr
	if err := cmd.Run(); err != nil {
		os.Exit(1)
	}
}

// thoroughExtras: the thorough tier additionally re-runs, against the real code of the current tree, the committed counterexamples
// of every finding recorded for this property in KNOWN_FINDINGS (fixed findings must stay fixed: "reports the violation again if it
// ever returns"). A failing replay is a violation with a failing input on the real code.
func thoroughExtras(eng *Engine, prop string, pr *propRun) []string {
	b, err := os.ReadFile(filepath.Join(verifRoot, "KNOWN_FINDINGS"))
	if err != nil {
		return nil
	}
	var files []string
	re := regexp.MustCompile(`replay: (findings/[A-Za-z0-9_./-]+\.go)`)
	for _, l := range strings.Split(string(b), "\n") {
		l = strings.TrimSpace(l)
		if !strings.HasPrefix(l, "fixed:") || !strings.Contains(l, "property="+prop+" ") {
			continue
		}
		for _, m := range re.FindAllStringSubmatch(l, -1) {
			files = append(files, m[1])
		}
	}
	if len(files) == 0 {
		return nil
	}
	// all finding files go into the package (they share helper types); only this property's tests are run
	all, _ := filepath.Glob(filepath.Join(verifRoot, "findings", "*_test.go"))
	ov := map[string]string{}
	for i, f := range all {
		ov[filepath.Join(eng.repo, fmt.Sprintf("zz_govc_finding_%d_test.go", i))] = f
	}
	dir := mkScratch()
	defer os.RemoveAll(dir)
	ovPath := filepath.Join(dir, "overlay.json")
	writeJSON(ovPath, map[string]any{"Replace": ov})
	var out []string
	testRe := regexp.MustCompile(`(?m)^func (Test[A-Za-z0-9_]+)\(`)
	for _, f := range files {
		src, err := os.ReadFile(filepath.Join(verifRoot, f))
		if err != nil {
			continue
		}
		var names []string
		for _, m := range testRe.FindAllStringSubmatch(string(src), -1) {
			names = append(names, m[1])
		}
		if len(names) == 0 {
			continue
		}
		cmd := exec.Command("go", "test", "-tags=verif", "-overlay", ovPath, "-vet=off", "-count=1", "-timeout", "300s", "-run", "^("+strings.Join(names, "|")+")$", ".")
		cmd.Dir = eng.repo
		o, err := cmd.CombinedOutput()
		res := "pass"
		if err != nil {
			res = "FAIL"
		}
		fmt.Printf("thorough: replay of recorded finding %s on the real code: %s\n", f, res)
		if err != nil {
			rp := filepath.Join(verifRoot, "replays", prop, "finding_"+sanitize(filepath.Base(f))+".json")
			txt := string(o)
			if len(txt) > 20000 {
				txt = txt[len(txt)-20000:]
			}
			writeJSON(rp, map[string]any{"property": prop, "obligation": "recorded finding " + f, "replay_test": filepath.Join(verifRoot, f),
				"replay_result": txt, "confirmed_on_real_code": true})
			out = append(out, fmt.Sprintf("VIOLATION property=%s replay=%s", prop, rp))
		}
	}
	return out
}

func runSelftest(args []string) { fmt.Println("selftest: see tools/seeds_report.py and selftest/") }
