package main

import (
	"fmt"
	"os"
)

type replayTest struct {
	Source    string
	Result    string
	Input     any
	Confirmed bool
}

// tryReplay turns a solver model into a Go test against the real code where a builder exists for the function.
func tryReplay(eng *Engine, cs *clauseStatus, o *Obligation) (*replayTest, bool) {
	return nil, false
}

func cmdReplay(args []string) {
	if len(args) < 1 {
		usage()
	}
	b, err := os.ReadFile(args[0])
	if err != nil {
		fmt.Fprintln(os.Stderr, err)
		os.Exit(2)
	}
	fmt.Println(string(b))
}

func thoroughExtras(eng *Engine, prop string, pr *propRun) []string { return nil }

func runSelftest(args []string) { fmt.Println("selftest: TODO") }
