package main

import (
	"flag"
	"fmt"
	"os"
	"sort"
	"strings"
	"time"
)

func usage() {
	fmt.Fprintln(os.Stderr, `usage: govc <command> [flags]
  verify  -f Key[,Key...] [-v] [-keep dir]      verify functions, print every obligation
  check   -p Cxx [-tier quick|thorough]         check a property (MANIFEST entry point)
  claim   -p Cxx|all                            (re)compute the claimed set on the current tree
  list    [-p Cxx]                              list contracts / functions
  replay  <file>                                re-run a stored counterexample test`)
	os.Exit(2)
}

func main() {
	if len(os.Args) < 2 {
		usage()
	}
	cmd := os.Args[1]
	args := os.Args[2:]
	switch cmd {
	case "verify":
		cmdVerify(args)
	case "check":
		cmdCheck(args)
	case "claim":
		cmdClaim(args)
	case "list":
		cmdList(args)
	case "replay":
		cmdReplay(args)
	case "selftest":
		cmdSelftest(args)
	case "mutcheck":
		cmdMutcheck(args)
	case "inliners":
		cmdInliners(args)
	default:
		usage()
	}
}

func envOr(k, d string) string {
	if v := os.Getenv(k); v != "" {
		return v
	}
	return d
}

type funcResult struct {
	Key         string
	Obls        []*Obligation
	Unsupported []string
	Notes       []string
	Inlined     []string
	Assumed     []string
	Called      []string
	Assumptions []string
	Secs        float64
	Serves      []string
	HasContract bool
	Vacuity     string // "ok" | "vacuous" | "not-refuted"
	ReachableReturns string
}

func verifyOne(eng *Engine, key string, opts solveOpts) *funcResult {
	base := key
	if i := strings.Index(key, "@"); i >= 0 {
		base = key[:i] // several contracts ("views") of one function: Recv.Name@tag
	}
	fi := eng.funcs[base]
	if fi != nil && base != key {
		cp := *fi
		cp.Key = key
		fi = &cp
	}
	fr := &funcResult{Key: key}
	if fi == nil {
		fr.Unsupported = []string{"function not found: " + key}
		return fr
	}
	ct := eng.specs.Contracts[key]
	if ct != nil && ct.Kind != "func" {
		ct = nil
	}
	t0 := time.Now()
	vc := newVC(eng, fi, ct)
	func() {
		defer func() {
			if r := recover(); r != nil {
				vc.unsupported = append(vc.unsupported, fmt.Sprintf("engine panic: %v", r))
				if os.Getenv("GOVC_PANIC") != "" {
					panic(r)
				}
			}
		}()
		vc.verifyFunction()
	}()
	fr.HasContract = ct != nil
	if ct != nil {
		fr.Serves = ct.Serves
	}
	fr.Unsupported = vc.unsupported
	fr.Notes = vc.notes
	for k := range vc.inlined {
		fr.Inlined = append(fr.Inlined, k)
	}
	sort.Strings(fr.Inlined)
	for k := range vc.assumedContracts {
		fr.Assumed = append(fr.Assumed, k)
	}
	sort.Strings(fr.Assumed)
	for k := range vc.calledContracts {
		fr.Called = append(fr.Called, k)
	}
	sort.Strings(fr.Called)
	for k := range vc.assumptionsUsed {
		fr.Assumptions = append(fr.Assumptions, k)
	}
	sort.Strings(fr.Assumptions)
	// vacuity guard: the entry assumptions must be satisfiable
	vac := &Obligation{Name: key + "/vacuity", Clause: key + "/vacuity", Kind: "vacuity", Func: key, Goal: "false", PC: vc.entryPC}
	vopts := opts
	vopts.quickT = 1
	vopts.noSecond = true
	vopts.quickT = 2
	covers := append([]*Obligation{vac}, vc.covers...)
	discharge(vc, covers, vopts)
	discharge(vc, vc.obls, opts)
	switch vac.Result {
	case "sat":
		fr.Vacuity = "ok"
	case "unsat":
		fr.Vacuity = "vacuous"
	default:
		fr.Vacuity = "not-refuted"
	}
	// at least one return site must be reachable (not refutable), otherwise every post-condition holds vacuously
	if len(vc.covers) > 0 {
		reach := 0
		for _, cv := range vc.covers {
			if cv.Result != "unsat" {
				reach++
			}
		}
		fr.ReachableReturns = fmt.Sprintf("%d/%d", reach, len(vc.covers))
		if reach == 0 {
			fr.Vacuity = "vacuous"
		}
	}
	fr.Obls = vc.obls
	fr.Secs = time.Since(t0).Seconds()
	return fr
}

func mkScratch() string {
	d, err := os.MkdirTemp("", "govc")
	if err != nil {
		fmt.Fprintln(os.Stderr, err)
		os.Exit(2)
	}
	return d
}

func cmdVerify(args []string) {
	fs := flag.NewFlagSet("verify", flag.ExitOnError)
	fkeys := fs.String("f", "", "function keys, comma separated")
	verbose := fs.Bool("v", false, "verbose")
	keep := fs.String("keep", "", "keep query files in this directory")
	repo := fs.String("repo", envOr("GOVC_REPO", "/repo"), "repository")
	tmo := fs.Int("t", 10, "timeout seconds")
	fs.Parse(args)
	eng, err := loadEngine(*repo)
	if err != nil {
		fmt.Fprintln(os.Stderr, "load:", err)
		os.Exit(2)
	}
	dir := *keep
	if dir == "" {
		dir = mkScratch()
		defer os.RemoveAll(dir)
	} else {
		os.MkdirAll(dir, 0o755)
	}
	opts := solveOpts{dir: dir, quickT: 3, slowT: *tmo, keep: *keep != "", workers: 16}
	var keys []string
	if *fkeys == "contracts" {
		for _, k := range eng.specs.Order {
			if eng.specs.Contracts[k].Kind == "func" && !eng.specs.Contracts[k].Trusted {
				keys = append(keys, k)
			}
		}
		for _, lm := range eng.specs.Lemmas {
			keys = append(keys, "lemma:"+lm.Name)
		}
	} else {
		keys = strings.Split(*fkeys, ",")
	}
	bad := 0
	for _, k := range keys {
		if strings.HasPrefix(k, "lemma:") {
			for _, lm := range eng.specs.Lemmas {
				if lm.Name == k[6:] {
					lr := verifyLemma(eng, lm, opts)
					fmt.Printf("== lemma %s: %d/%d discharged\n", lm.Name, lr.Discharged, len(lr.Obls))
					for _, o := range lr.Obls {
						if o.Result != "unsat" || *verbose {
							fmt.Printf("   [%s %s %.2fs] %s %s %s\n", o.Result, o.Backend, o.Secs, o.Name, o.Src, o.Output)
						}
						if o.Result != "unsat" {
							bad++
						}
					}
				}
			}
			continue
		}
		fr := verifyOne(eng, k, opts)
		nOK := 0
		for _, o := range fr.Obls {
			if o.Result == "unsat" {
				nOK++
			}
		}
		fmt.Printf("== %s: %d/%d discharged, vacuity=%s, returns reachable %s, %.1fs\n", k, nOK, len(fr.Obls), fr.Vacuity, fr.ReachableReturns, fr.Secs)
		for _, u := range fr.Unsupported {
			fmt.Println("   UNSUPPORTED:", u)
		}
		if *verbose {
			for _, n := range fr.Notes {
				fmt.Println("   note:", n)
			}
			if len(fr.Inlined) > 0 {
				fmt.Println("   inlined:", strings.Join(fr.Inlined, " "))
			}
			if len(fr.Assumed) > 0 {
				fmt.Println("   assumed contracts:", strings.Join(fr.Assumed, " "))
			}
		}
		for _, o := range fr.Obls {
			if o.Result != "unsat" || *verbose {
				fmt.Printf("   [%s %s %.2fs] %s  (%s) %s\n", o.Result, o.Backend, o.Secs, o.Name, o.Pos, o.Src)
			}
			if o.Result != "unsat" {
				bad++
			}
		}
	}
	if bad > 0 {
		os.Exit(1)
	}
}

func cmdList(args []string) {
	fs := flag.NewFlagSet("list", flag.ExitOnError)
	repo := fs.String("repo", envOr("GOVC_REPO", "/repo"), "repository")
	fs.Parse(args)
	eng, err := loadEngine(*repo)
	if err != nil {
		fmt.Fprintln(os.Stderr, "load:", err)
		os.Exit(2)
	}
	for _, k := range eng.specs.Order {
		c := eng.specs.Contracts[k]
		fmt.Printf("%-8s %-50s serves=%v requires=%d ensures=%d loops=%d\n", c.Kind, k, c.Serves, len(c.Requires), len(c.Ensures), len(c.Loops))
	}
	fmt.Printf("%d functions indexed, %d contracts, %d preds, %d lemmas\n", len(eng.funcs), len(eng.specs.Contracts), len(eng.specs.Preds), len(eng.specs.Lemmas))
}

func init() {
	if os.Getenv("GOVC_DUMP_FIELDS") != "" {
		dumpFields = true
	}
}

var dumpFields bool
