package main

// VC context, symbolic state, obligations.

import (
	"os"
	"fmt"
	"go/ast"
	"go/token"
	"go/types"
	"sort"
	"strings"
)

type Val struct {
	S    string
	Ty   types.Type
	Sort string
}

type State struct {
	locals  map[types.Object]string
	heap    map[string]string
	epoch   int
	globals map[types.Object]string
	ghost   map[string]string
	alloc   string
	pc      []string
	guards  []string // conditional-evaluation guards (short circuit)
}

func (s *State) clone() *State {
	n := &State{epoch: s.epoch, alloc: s.alloc}
	n.locals = make(map[types.Object]string, len(s.locals))
	for k, v := range s.locals {
		n.locals[k] = v
	}
	n.heap = make(map[string]string, len(s.heap))
	for k, v := range s.heap {
		n.heap[k] = v
	}
	n.globals = make(map[types.Object]string, len(s.globals))
	for k, v := range s.globals {
		n.globals[k] = v
	}
	n.ghost = make(map[string]string, len(s.ghost))
	for k, v := range s.ghost {
		n.ghost[k] = v
	}
	n.pc = append([]string(nil), s.pc...)
	n.guards = append([]string(nil), s.guards...)
	return n
}

type Obligation struct {
	Name    string // full name incl. site
	Clause  string // clause-level name (unit of claim)
	Kind    string
	Func    string
	Goal    string
	PC      []string
	Pos     string
	Src     string // clause source text
	Query   string
	Result  string // unsat | sat | unknown | timeout | error
	Backend string
	Secs    float64
	Model   string
	Output  string
	Serves  []string
}

type epochInfo struct {
	kind   string // entry | havoc | merge
	cond   string
	e1, e2 int
	terms  map[string]string
	// havoc epochs: the state just before (for fields that are never written anywhere, see indexFieldWrites)
	prevEpoch int
	prevHeap  map[string]string
	prevAlloc string
}

type VC struct {
	eng       *Engine
	fn        *FuncInfo
	contract  *Contract
	decls     []string
	declared  map[string]bool
	defs      []string
	defOf     map[string]string // const -> def assertion
	nfresh    int
	obls      []*Obligation
	entry     *State
	epochs    []*epochInfo
	heapSort  map[string]string // heap key -> element sort
	unsupported []string
	notes     []string
	inlined   map[string]bool
	assumedContracts map[string]bool
	mentions         map[string]bool // identifiers mentioned by the contract under verification (closed under preds)
	calledContracts  map[string]bool // every contract applied at a call site (verified or not): its post-conditions were assumed there
	inlineDepth int
	callOrd   map[string]int
	retOrd    int
	safetyOrd map[string]int
	loopOrd   int
	loopStack []int
	frames    []*frame
	assumptionsUsed map[string]bool
	tolerant        bool // evaluating an exit clause: unresolved names are counted, not reported
	missingNames    int
	bytesCtx        int // >0 while evaluating an operation on a slice of integers (no sum facts)
	boxFuncs  map[string]bool
	ufuns     map[string]bool
	outParams []*types.Var
	capturedAssigned map[*types.Var]bool
	globalAxioms []string
	axiomFacts []string
	aliasOf   map[*types.Var]ast.Expr
	hiddenVars map[*ast.RangeStmt]types.Object
	boxed     map[*types.Var]*types.Var
	shadow    map[*types.Var]*types.Var
	resultEnv map[string]Val
	entryPC   []string
	entryPCLen int
	nq        int
	pendingTargs map[*types.TypeParam]types.Type
	constSort map[string]string
	abandonPath bool
	cutState    *State // state at the construct that triggers the concurrency cut (set by the caller of concurrency())
	cutAsserted bool
	usedLemmas map[string]bool
	rangeAsserted map[string]bool
	recvOrd   int
	measureMemo map[string]string
	frameFacts map[string][]string // pc fact -> the (new) heap array it constrains; dropped from queries that never mention it
	pendingRecv int
	covers    []*Obligation
	typeFacts []string // type invariants of heap values mentioned in specs (always true)
}

// frame: one (possibly inlined) function activation
type frame struct {
	fn       *FuncInfo
	results  []types.Object // named results (objects) if any
	rets     []retRec
	defers   []deferRec
	inline   bool
	contract *Contract
	resNames map[string]int
	oldState *State
	loopBase int
	litFree  bool
	targs    map[*types.TypeParam]types.Type
}

type retRec struct {
	st   *State
	vals []Val
}

type deferRec struct {
	call *ast.CallExpr
}

func (vc *VC) fresh(prefix, sortS string) string {
	vc.nfresh++
	name := fmt.Sprintf("%s!%d", sanitize(prefix), vc.nfresh)
	vc.declare(name, sortS)
	return name
}

func sanitize(s string) string {
	var b strings.Builder
	for _, c := range s {
		if (c >= 'a' && c <= 'z') || (c >= 'A' && c <= 'Z') || (c >= '0' && c <= '9') || c == '_' || c == '.' {
			b.WriteRune(c)
		} else {
			b.WriteRune('_')
		}
	}
	return b.String()
}

func (vc *VC) declare(name, sortS string) {
	if vc.declared[name] {
		return
	}
	vc.declared[name] = true
	if vc.constSort == nil {
		vc.constSort = map[string]string{}
	}
	vc.constSort[name] = sortS
	vc.decls = append(vc.decls, fmt.Sprintf("(declare-const %s %s)", name, sortS))
}

func (vc *VC) declareFun(name string, args []string, ret string) {
	if vc.declared[name] {
		return
	}
	vc.declared[name] = true
	vc.decls = append(vc.decls, fmt.Sprintf("(declare-fun %s (%s) %s)", name, strings.Join(args, " "), ret))
}

// define a fresh constant equal to term
func (vc *VC) define(prefix, sortS, term string) string {
	// avoid wrapping atoms
	if isAtom(term) {
		return term
	}
	n := vc.fresh(prefix, sortS)
	d := fmt.Sprintf("(assert (= %s %s))", n, term)
	vc.defs = append(vc.defs, d)
	vc.defOf[n] = d
	return n
}

func isAtom(t string) bool {
	return !strings.ContainsAny(t, "( ")
}

func (vc *VC) assume(st *State, fact string) {
	if fact == "" || fact == "true" {
		return
	}
	if len(st.guards) > 0 {
		fact = fmt.Sprintf("(=> (and %s) %s)", strings.Join(st.guards, " "), fact)
	}
	st.pc = append(st.pc, fact)
}

func (vc *VC) unsupportedf(pos token.Pos, format string, args ...any) {
	msg := fmt.Sprintf(format, args...)
	if pos.IsValid() {
		msg = vc.eng.pos(pos) + ": " + msg
	}
	vc.unsupported = append(vc.unsupported, msg)
}

// splitAnd: top-level conjuncts of an SMT term "(and a b ...)" (diagnosis aid, GOVC_SPLIT=1)
func splitAnd(g string) []string {
	g = strings.TrimSpace(g)
	if !strings.HasPrefix(g, "(and ") || !strings.HasSuffix(g, ")") {
		return []string{g}
	}
	body := g[5 : len(g)-1]
	var parts []string
	depth, start := 0, -1
	for i := 0; i < len(body); i++ {
		c := body[i]
		switch {
		case c == '(':
			if depth == 0 && start < 0 {
				start = i
			}
			depth++
		case c == ')':
			depth--
			if depth == 0 && start >= 0 {
				parts = append(parts, body[start:i+1])
				start = -1
			}
		case c == ' ' || c == '\n' || c == '\t':
			if depth == 0 && start >= 0 {
				parts = append(parts, body[start:i])
				start = -1
			}
		default:
			if depth == 0 && start < 0 {
				start = i
			}
		}
	}
	if start >= 0 {
		parts = append(parts, body[start:])
	}
	var out []string
	for _, p := range parts {
		out = append(out, splitAnd(p)...)
	}
	return out
}

func (vc *VC) emit(st *State, kind, clause, site, goal string, pos token.Pos, src string) {
	if goal == "true" {
		return
	}
	if os.Getenv("GOVC_SPLIT") != "" && kind != "vacuity" {
		if parts := splitAnd(goal); len(parts) > 1 {
			for i, p := range parts {
				pc := append([]string(nil), st.pc...)
				pc = append(pc, st.guards...)
				nm := clause
				if site != "" {
					nm = clause + "@" + site
				}
				ps := ""
				if pos.IsValid() {
					ps = vc.eng.pos(pos)
				}
				short := p
				if len(short) > 160 {
					short = short[:160]
				}
				vc.obls = append(vc.obls, &Obligation{Name: fmt.Sprintf("%s#%d", nm, i+1), Clause: clause, Kind: kind, Func: vc.fn.Key, Goal: p, PC: pc, Pos: ps, Src: short})
			}
			return
		}
	}
	pc := append([]string(nil), st.pc...)
	if len(st.guards) > 0 {
		pc = append(pc, st.guards...)
	}
	name := clause
	if site != "" {
		name = clause + "@" + site
	}
	p := ""
	if pos.IsValid() {
		p = vc.eng.pos(pos)
	}
	vc.obls = append(vc.obls, &Obligation{Name: name, Clause: clause, Kind: kind, Func: vc.fn.Key, Goal: goal, PC: pc, Pos: p, Src: src})
}

// ---------- heap ----------

func (vc *VC) heapKeySort(key string) string {
	return vc.heapSort[key]
}

func (vc *VC) epochTerm(e int, key string) string {
	ei := vc.epochs[e]
	if t, ok := ei.terms[key]; ok {
		return t
	}
	es := vc.heapSort[key]
	arrSort := "(Array Int " + es + ")"
	var t string
	switch ei.kind {
	case "entry":
		t = "H0_" + sanitize(key)
		vc.declare(t, arrSort)
		if es == "Int" && vc.eng.fieldIsRef(key) && os.Getenv("GOVC_NOCLOSURE") == "" {
			// no dangling pointers at entry: a pointer / interface field of an existing object is nil, a boxed value, or an existing object
			d := fmt.Sprintf("(assert (forall ((r_m Int)) (! (=> (select alloc0 r_m) (or (<= (select %s r_m) 0) (select alloc0 (select %s r_m)))) :pattern ((select %s r_m)))))", t, t, t)
			vc.defs = append(vc.defs, d)
			vc.defOf[t] = d
		}
	case "havoc":
		t = fmt.Sprintf("H%d_%s", e, sanitize(key))
		vc.declare(t, arrSort)
		if ei.prevAlloc != "" && !vc.eng.mutableFields[key] && strings.Contains(key, ".") {
			// never-written field: objects allocated before the havoc keep their value
			prev, ok := ei.prevHeap[key]
			if !ok {
				prev = vc.epochTerm(ei.prevEpoch, key)
			}
			d := fmt.Sprintf("(assert (forall ((r_m Int)) (! (=> (select %s r_m) (= (select %s r_m) (select %s r_m))) :pattern ((select %s r_m)))))", ei.prevAlloc, t, prev, t)
			vc.defs = append(vc.defs, d)
			vc.defOf[t] = d
			vc.assumptionsUsed["fields never assigned anywhere in the package (field-write census, e.g. Array.Storage) keep their value in allocated objects across calls with unknown effect (writes by importing packages or reflection are not considered)"] = true
		}
	case "merge":
		a := vc.epochTerm(ei.e1, key)
		b := vc.epochTerm(ei.e2, key)
		if a == b {
			t = a
		} else {
			t = fmt.Sprintf("H%d_%s", e, sanitize(key))
			vc.declare(t, arrSort)
			d := fmt.Sprintf("(assert (= %s (ite %s %s %s)))", t, ei.cond, a, b)
			vc.defs = append(vc.defs, d)
			vc.defOf[t] = d
		}
	}
	ei.terms[key] = t
	return t
}

func (vc *VC) newEpoch(kind, cond string, e1, e2 int) int {
	vc.epochs = append(vc.epochs, &epochInfo{kind: kind, cond: cond, e1: e1, e2: e2, terms: map[string]string{}})
	return len(vc.epochs) - 1
}

func (vc *VC) heapGet(st *State, key, elemSort string) string {
	if _, ok := vc.heapSort[key]; !ok {
		vc.heapSort[key] = elemSort
	}
	if t, ok := st.heap[key]; ok {
		return t
	}
	return vc.epochTerm(st.epoch, key)
}

func (vc *VC) heapSet(st *State, key, elemSort, arrTerm string) {
	if _, ok := vc.heapSort[key]; !ok {
		vc.heapSort[key] = elemSort
	}
	if len(st.guards) > 0 {
		old := vc.heapGet(st, key, elemSort)
		arrTerm = fmt.Sprintf("(ite (and %s) %s %s)", strings.Join(st.guards, " "), arrTerm, old)
	}
	st.heap[key] = vc.define("H_"+key, "(Array Int "+elemSort+")", arrTerm)
}

func (vc *VC) havocAllHeap(st *State) {
	prevHeap, prevEpoch := st.heap, st.epoch
	st.heap = map[string]string{}
	st.epoch = vc.newEpoch("havoc", "", 0, 0)
	ei := vc.epochs[st.epoch]
	ei.prevHeap, ei.prevEpoch, ei.prevAlloc = prevHeap, prevEpoch, st.alloc
	old := st.alloc
	st.alloc = vc.fresh("alloc", "(Array Int Bool)")
	vc.assume(st, fmt.Sprintf("(forall ((r Int)) (! (=> (select %s r) (select %s r)) :pattern ((select %s r))))", old, st.alloc, old))
}

func (vc *VC) setLocal(st *State, obj types.Object, term string, sortS string) {
	if len(st.guards) > 0 {
		if old, ok := st.locals[obj]; ok {
			term = fmt.Sprintf("(ite (and %s) %s %s)", strings.Join(st.guards, " "), term, old)
		}
	}
	st.locals[obj] = vc.define(obj.Name(), sortS, term)
}

// ---------- merging ----------

// merge two states that share a common pc prefix; cond holds in a.
func (vc *VC) merge(a, b *State, cond string) *State {
	if a == nil {
		return b
	}
	if b == nil {
		return a
	}
	// common pc prefix
	n := 0
	for n < len(a.pc) && n < len(b.pc) && a.pc[n] == b.pc[n] {
		n++
	}
	m := &State{locals: map[types.Object]string{}, heap: map[string]string{}, globals: map[types.Object]string{}, ghost: map[string]string{}}
	m.guards = append([]string(nil), a.guards...)
	m.pc = append([]string(nil), a.pc[:n]...)
	ra := a.pc[n:]
	rb := b.pc[n:]
	if cond != "" {
		has := func(xs []string, f string) bool {
			for _, x := range xs {
				if x == f {
					return true
				}
			}
			return false
		}
		if !has(ra, cond) {
			ra = append([]string{cond}, ra...)
		}
		if !has(rb, "(not "+cond+")") {
			rb = append([]string{"(not " + cond + ")"}, rb...)
		}
	}
	if cond == "" {
		// derive a distinguishing condition: introduce a fresh boolean
		c := vc.fresh("mc", "Bool")
		cond = c
		ra = append([]string{c}, ra...)
		rb = append([]string{"(not " + c + ")"}, rb...)
	}
	conj := func(xs []string) string {
		if len(xs) == 0 {
			return "true"
		}
		if len(xs) == 1 {
			return xs[0]
		}
		return "(and " + strings.Join(xs, " ") + ")"
	}
	if len(ra) > 0 || len(rb) > 0 {
		m.pc = append(m.pc, fmt.Sprintf("(or %s %s)", conj(ra), conj(rb)))
	}
	ite := func(prefix, sortS, x, y string) string {
		if x == y {
			return x
		}
		return vc.define(prefix, sortS, fmt.Sprintf("(ite %s %s %s)", cond, x, y))
	}
	for k, va := range a.locals {
		if vb, ok := b.locals[k]; ok {
			srt := vc.eng.sorts.sortOf(vc.subst(k.Type()))
			if s1, ok := vc.constSort[va]; ok {
				srt = s1
			} else if s2, ok := vc.constSort[vb]; ok {
				srt = s2
			}
			m.locals[k] = ite(k.Name(), srt, va, vb)
		}
	}
	for k, va := range a.globals {
		vb, ok := b.globals[k]
		if !ok {
			vb = vc.globalInit(k)
		}
		m.globals[k] = ite(k.Name(), vc.eng.sorts.sortOf(k.Type()), va, vb)
	}
	for k, vb := range b.globals {
		if _, ok := a.globals[k]; !ok {
			m.globals[k] = ite(k.Name(), vc.eng.sorts.sortOf(k.Type()), vc.globalInit(k), vb)
		}
	}
	for k, va := range a.ghost {
		vb, ok := b.ghost[k]
		if !ok {
			vb = vc.ghostInit(k)
		}
		m.ghost[k] = ite("g_"+k, vc.eng.ghostSort(k), va, vb)
	}
	for k, vb := range b.ghost {
		if _, ok := a.ghost[k]; !ok {
			m.ghost[k] = ite("g_"+k, vc.eng.ghostSort(k), vc.ghostInit(k), vb)
		}
	}
	// heap
	if a.epoch == b.epoch {
		m.epoch = a.epoch
	} else {
		m.epoch = vc.newEpoch("merge", cond, a.epoch, b.epoch)
	}
	keys := map[string]bool{}
	for k := range a.heap {
		keys[k] = true
	}
	for k := range b.heap {
		keys[k] = true
	}
	var ks []string
	for k := range keys {
		ks = append(ks, k)
	}
	sort.Strings(ks)
	for _, k := range ks {
		es := vc.heapSort[k]
		x := vc.heapGet(a, k, es)
		y := vc.heapGet(b, k, es)
		m.heap[k] = ite("H_"+k, "(Array Int "+es+")", x, y)
	}
	m.alloc = ite("alloc", "(Array Int Bool)", a.alloc, b.alloc)
	return m
}

// merge a list of states (pairwise, fresh boolean selectors)
func (vc *VC) mergeAll(sts []*State) *State {
	var cur *State
	for _, s := range sts {
		if s == nil {
			continue
		}
		if cur == nil {
			cur = s
		} else {
			cur = vc.merge(cur, s, "")
		}
	}
	return cur
}

func (vc *VC) ghostInit(name string) string {
	n := "g0_" + sanitize(name)
	vc.declare(n, vc.eng.ghostSort(name))
	return n
}

func (vc *VC) globalInit(obj types.Object) string {
	n := "G0_" + sanitize(obj.Name())
	vc.declare(n, vc.eng.sorts.sortOf(obj.Type()))
	return n
}

func (vc *VC) getGlobal(st *State, obj types.Object) string {
	if t, ok := st.globals[obj]; ok {
		return t
	}
	return vc.globalInit(obj)
}
