package main

// Per-function verification driver, post-condition checking, boxed locals, ghost bookkeeping.

import (
	"fmt"
	"go/ast"
	"go/token"
	"go/types"
	"strings"
)

func newVC(eng *Engine, fi *FuncInfo, ct *Contract) *VC {
	vc := &VC{eng: eng, fn: fi, contract: ct,
		declared: map[string]bool{}, defOf: map[string]string{}, heapSort: map[string]string{},
		inlined: map[string]bool{}, assumedContracts: map[string]bool{}, calledContracts: map[string]bool{}, callOrd: map[string]int{}, safetyOrd: map[string]int{},
		boxFuncs: map[string]bool{}, ufuns: map[string]bool{},
		aliasOf: map[*types.Var]ast.Expr{}, hiddenVars: map[*ast.RangeStmt]types.Object{}, capturedAssigned: map[*types.Var]bool{},
		boxed: map[*types.Var]*types.Var{}, resultEnv: map[string]Val{}, shadow: map[*types.Var]*types.Var{}, usedLemmas: map[string]bool{}, rangeAsserted: map[string]bool{}, frameFacts: map[string][]string{}}
	vc.newEpoch("entry", "", 0, 0)
	return vc
}

// extra VC fields (declared here to keep vc.go focused)
type vcExtra struct{}

func (vc *VC) verifyFunction() {
	fi := vc.fn
	ct := vc.contract
	st := &State{locals: map[types.Object]string{}, heap: map[string]string{}, globals: map[types.Object]string{}, ghost: map[string]string{}}
	vc.declare("alloc0", "(Array Int Bool)")
	st.alloc = "alloc0"
	vc.needDyntype()
	vc.scanBoxedAndCaptured(fi.Body)
	sig := fi.Sig
	fr := &frame{fn: fi, contract: ct}
	vc.frames = []*frame{fr}
	// receiver and parameters
	bind := func(p *types.Var, prefix string) {
		if p == nil {
			return
		}
		s := vc.sortOf(p.Type())
		n := "p_" + sanitize(p.Name())
		if p.Name() == "" || p.Name() == "_" {
			n = vc.fresh("p_anon", s)
		} else {
			vc.declare(n, s)
		}
		v := Val{S: n, Ty: p.Type(), Sort: s}
		vc.assumeRange(st, v)
		if vc.needsBox(p) {
			vc.initBoxed(st, p, v)
			// keep the entry value reachable for specs
			sh := types.NewVar(p.Pos(), p.Pkg(), p.Name(), p.Type())
			vc.shadow[p] = sh
			st.locals[sh] = n
			return
		}
		st.locals[p] = n
	}
	if sig.Recv() != nil {
		bind(sig.Recv(), "recv")
		if _, isPtr := sig.Recv().Type().Underlying().(*types.Pointer); isPtr {
			// methods are verified for non-nil receivers (a nil receiver panics at the first field access and is a caller obligation)
			if t, ok := st.locals[sig.Recv()]; ok {
				vc.assume(st, fmt.Sprintf("(not (= %s 0))", t))
			}
		}
	}
	for i := 0; i < sig.Params().Len(); i++ {
		bind(sig.Params().At(i), "p")
		if ct != nil && ct.Options["assume-nonnil-params"] != "" {
			p := sig.Params().At(i)
			switch p.Type().Underlying().(type) {
			case *types.Pointer, *types.Interface, *types.Signature:
				if t, ok := st.locals[p]; ok {
					vc.assume(st, fmt.Sprintf("(not (= %s 0))", t))
					vc.noteAssumption(fmt.Sprintf("%s: pointer / interface / function parameters are non-nil (caller obligation)", fi.Key))
				}
			}
		}
	}
	// free variables of a closure verified standalone: one unconstrained value each (typed ranges assumed)
	if fi.Lit != nil {
		ast.Inspect(fi.Lit.Body, func(n ast.Node) bool {
			id, ok := n.(*ast.Ident)
			if !ok {
				return true
			}
			o, ok := vc.eng.info.Uses[id].(*types.Var)
			if !ok || o.IsField() || (o.Pkg() != nil && o.Parent() == o.Pkg().Scope()) {
				return true
			}
			if o.Pos() >= fi.Lit.Pos() && o.Pos() <= fi.Lit.End() {
				return true
			}
			if _, done := st.locals[o]; done {
				return true
			}
			srt := vc.sortOf(o.Type())
			n2 := "free_" + sanitize(o.Name())
			vc.declare(n2, srt)
			st.locals[o] = n2
			vc.assumeRange(st, Val{S: n2, Ty: o.Type(), Sort: srt})
			return true
		})
	}
	for i := 0; i < sig.Results().Len(); i++ {
		r := sig.Results().At(i)
		if r.Name() != "" && r.Name() != "_" {
			st.locals[r] = vc.eng.sorts.zero(r.Type())
		}
	}
	// ghost initial values: declared lazily; entry snapshot
	vc.entry = st.clone()
	fr.oldState = vc.entry
	// global axioms from the contract files
	for _, ax := range vc.eng.specs.Axioms {
		t := vc.specBool(st, vc.entry, ax.Expr, nil, nil)
		vc.axiomFacts = append(vc.axiomFacts, t)
		vc.noteAssumption(fmt.Sprintf("axiom (%s:%d): %s  [%s]", shortFile(ax.File), ax.Line, ax.Src, ax.Reason))
	}
	cutMode := ct != nil && ct.Options["start-at-loop"] != ""
	if ct != nil && !cutMode {
		for _, rq := range ct.Requires {
			t := vc.specBool(st, vc.entry, rq.Expr, nil, nil)
			vc.assume(st, t)
		}
		for _, as := range ct.Assumes {
			t := vc.specBool(st, vc.entry, as.Expr, nil, nil)
			vc.assume(st, t)
			vc.noteAssumption(fmt.Sprintf("assume in %s: %s  [%s]", ct.Key, as.Src, as.Reason))
		}
	}
	vc.assumeLemmas(st)
	stmts := fi.Body.List
	if ct != nil && ct.Options["start-at-loop"] != "" {
		// CUT: verification starts at the given top-level loop; everything before it (typically a concurrent phase)
		// is replaced by the contract's `assume` clauses, evaluated over unconstrained values of the locals declared before.
		n := 0
		fmt.Sscanf(ct.Options["start-at-loop"], "%d", &n)
		idx, skippedLoops := vc.findTopLevelLoop(stmts, n)
		if idx < 0 {
			vc.unsupportedf(fi.Body.Pos(), "start-at-loop %d: no such top-level loop", n)
			return
		}
		// deferred calls registered in the skipped code run at every exit of the function, i.e. inside the part that IS verified.
		// The cut assumes they do not touch the modelled state (A7); so their number is part of the contract ("option cut-defers N",
		// default 0): a new defer in the skipped code makes the view unverifiable instead of being silently ignored.
		nDefers := 0
		for _, sk := range stmts[:idx] {
			ast.Inspect(sk, func(nd ast.Node) bool {
				if _, isLit := nd.(*ast.FuncLit); isLit {
					return false
				}
				if _, isDefer := nd.(*ast.DeferStmt); isDefer {
					nDefers++
					return false
				}
				return true
			})
		}
		wantDefers := 0
		fmt.Sscanf(ct.Options["cut-defers"], "%d", &wantDefers)
		if nDefers != wantDefers {
			vc.unsupportedf(fi.Body.Pos(), "start-at-loop %d: the skipped code registers %d deferred call(s), the contract allows %d (option cut-defers)", n, nDefers, wantDefers)
			return
		}
		for _, sk := range stmts[:idx] {
			ast.Inspect(sk, func(nd ast.Node) bool {
				if _, isLit := nd.(*ast.FuncLit); isLit {
					return false
				}
				id, ok := nd.(*ast.Ident)
				if !ok {
					return true
				}
				o, ok := vc.eng.info.Defs[id].(*types.Var)
				if !ok || o == nil || id.Name == "_" {
					return true
				}
				srt := vc.sortOf(o.Type())
				nm := vc.fresh("cut_"+o.Name(), srt)
				st.locals[o] = nm
				vc.assumeRange(st, Val{S: nm, Ty: o.Type(), Sort: srt})
				return true
			})
		}
		// state written before the cut is unknown
		vc.havocAllHeap(st)
		for g := range vc.eng.specs.Ghosts {
			st.ghost[g] = vc.fresh("g_"+g, vc.eng.ghostSort(g))
		}
		fr.loopBase = skippedLoops
		stmts = stmts[idx:]
		vc.noteAssumption(fmt.Sprintf("CUT in %s: verification starts at loop %d; the code before it is replaced by the contract's assume clauses", fi.Key, n))
		vc.entry = st.clone()
		fr.oldState = vc.entry
		for _, as := range ct.Assumes {
			t := vc.specBool(st, vc.entry, as.Expr, nil, nil)
			vc.assume(st, t)
		}
	}
	vc.entryPCLen = len(st.pc)
	vc.entryPC = append([]string(nil), st.pc...)
	// re-snapshot entry so that old() sees lazily created ghosts consistently
	vc.entry = st.clone()
	fr.oldState = vc.entry
	f := vc.execBlock(st, stmts)
	if f.normal != nil {
		if sig.Results().Len() == 0 {
			vc.finishReturn(f.normal, nil, fi.Body.End())
		} else {
			// falling off the end of a function with results cannot happen in valid Go unless the end is unreachable
			_ = f
		}
	}
	for _, j := range f.jumps {
		_ = j
	}
}

func shortFile(f string) string {
	if i := strings.LastIndex(f, "/"); i >= 0 {
		return f[i+1:]
	}
	return f
}

// checkPost: emit an obligation for every ensures clause at a return site
func (vc *VC) checkPost(st *State, vals []Val, pos token.Pos, ord int) {
	ct := vc.contract
	if ct == nil {
		return
	}
	sig := vc.fn.Sig
	names := resultNames(ct, sig)
	vc.resultEnv = map[string]Val{}
	for i, v := range vals {
		if i < len(names) {
			vc.resultEnv[names[i]] = v
		}
	}
	for _, en := range ct.Ensures {
		t := vc.specBool(st, vc.entry, en.Expr, nil, nil)
		clause := fmt.Sprintf("%s/ensures%d", vc.fn.Key, en.Ord)
		vc.emit(st, "postcondition", clause, fmt.Sprintf("ret%d", ord), t, pos, en.Src)
	}
	for _, en := range ct.Exits {
		vc.tolerant, vc.missingNames = true, 0
		nU, nT, nP := len(vc.unsupported), len(vc.typeFacts), len(st.pc)
		t := vc.specBool(st, vc.entry, en.Expr, nil, nil)
		vc.tolerant = false
		if vc.missingNames > 0 {
			// a local it mentions is not in scope at this return: drop everything the evaluation left behind
			vc.unsupported = vc.unsupported[:nU]
			for _, f := range vc.typeFacts[nT:] {
				delete(vc.rangeAsserted, f)
			}
			vc.typeFacts = vc.typeFacts[:nT]
			st.pc = st.pc[:nP]
			continue
		}
		clause := fmt.Sprintf("%s/exit%d", vc.fn.Key, en.Ord)
		vc.emit(st, "postcondition", clause, fmt.Sprintf("ret%d", ord), t, pos, en.Src)
	}
	// frame: declared modifies (checked for heap fields of in-package structs and ghosts)
	if ct.HasModif {
		vc.checkFrame(st, pos, ord)
	}
	vc.resultEnv = map[string]Val{}
}

// checkFrame: everything outside the declared modifies clause is unchanged
func (vc *VC) checkFrame(st *State, pos token.Pos, ord int) {
	ct := vc.contract
	type allow struct {
		all   bool
		objs  []string
		conds []string // r_fr may change when one of these holds
	}
	allowed := map[string]*allow{}
	ghostOK := map[string]bool{}
	globalOK := map[string]bool{}
	heapAll := false
	for _, m := range ct.Modifies {
		m = strings.TrimSpace(m)
		switch {
		case m == "heap":
			heapAll = true
			continue
		case m == "alloc":
			continue
		case strings.HasPrefix(m, "ghost."):
			ghostOK[m[6:]] = true
			continue
		case strings.HasPrefix(m, "global."):
			globalOK[m[7:]] = true
			continue
		}
		condTerm := ""
		if at := strings.Index(m, "@"); at >= 0 {
			rest := m[at+1:]
			m = m[:at]
			if i := strings.Index(rest, "("); i > 0 && strings.HasSuffix(rest, ")") {
				if ae, err := parseSpecExpr(rest[i+1 : len(rest)-1]); err == nil {
					av := vc.specEval(vc.entry, vc.entry, ae, nil, nil)
					vc.declareFun("uf_"+rest[:i], []string{"Int", "Int"}, "Bool")
					condTerm = fmt.Sprintf("(uf_%s %s r_fr)", rest[:i], av.S)
				}
			}
		}
		if strings.HasPrefix(m, "*") {
			// pointee of a pointer to a non-struct value
			if e, err := parseSpecExpr(m[1:]); err == nil {
				bv := vc.specEval(vc.entry, vc.entry, e, nil, nil)
				if bv.Ty != nil {
					if pt, ok := bv.Ty.Underlying().(*types.Pointer); ok {
						key := "ptr:" + vc.sortOf(pt.Elem())
						a := allowed[key]
						if a == nil {
							a = &allow{}
							allowed[key] = a
						}
						a.objs = append(a.objs, bv.S)
					}
				}
			}
			continue
		}
		k := strings.LastIndex(m, ".")
		if k < 0 {
			continue
		}
		base, field := m[:k], m[k+1:]
		if tn, ok := vc.eng.pkg.Types.Scope().Lookup(base).(*types.TypeName); ok {
			if n, s := namedStructOf(tn.Type()); n != nil {
				for i := 0; i < s.NumFields(); i++ {
					if field == "*" || field == s.Field(i).Name() {
						key := vc.heapKey(n, s.Field(i).Name())
						a := allowed[key]
						if a == nil {
							a = &allow{}
							allowed[key] = a
						}
						if condTerm == "" {
							a.all = true
						} else {
							a.conds = append(a.conds, condTerm)
						}
					}
				}
				continue
			}
		}
		e, err := parseSpecExpr(base)
		if err != nil {
			continue
		}
		bv := vc.specEval(vc.entry, vc.entry, e, nil, nil)
		if bv.Ty == nil {
			continue
		}
		pt, ok := bv.Ty.Underlying().(*types.Pointer)
		if !ok {
			continue
		}
		n, s := namedStructOf(pt.Elem())
		if n == nil {
			continue
		}
		for i := 0; i < s.NumFields(); i++ {
			if field == "*" || field == s.Field(i).Name() {
				key := vc.heapKey(n, s.Field(i).Name())
				a := allowed[key]
				if a == nil {
					a = &allow{}
					allowed[key] = a
				}
				a.objs = append(a.objs, bv.S)
			}
		}
	}
	if heapAll {
		return
	}
	// every heap key known so far
	var keys []string
	for k := range vc.heapSort {
		keys = append(keys, k)
	}
	sortStrings(keys)
	for _, k := range keys {
		es := vc.heapSort[k]
		cur := vc.heapGet(st, k, es)
		old := vc.heapGet(vc.entry, k, es)
		if cur == old {
			continue
		}
		a := allowed[k]
		if a != nil && a.all {
			continue
		}
		var conds []string
		conds = append(conds, fmt.Sprintf("(select %s r_fr)", vc.entry.alloc)) // only pre-existing objects matter
		if a != nil {
			for _, o := range a.objs {
				conds = append(conds, fmt.Sprintf("(not (= r_fr %s))", o))
			}
			for _, ct := range a.conds {
				conds = append(conds, "(not "+ct+")")
			}
		}
		goal := fmt.Sprintf("(forall ((r_fr Int)) (=> (and %s) (= (select %s r_fr) (select %s r_fr))))", strings.Join(conds, " "), cur, old)
		clause := fmt.Sprintf("%s/frame/%s", vc.fn.Key, k)
		vc.emit(st, "frame", clause, fmt.Sprintf("ret%d", ord), goal, pos, "modifies clause: "+k+" unchanged elsewhere")
	}
	for g, cur := range st.ghost {
		if ghostOK[g] {
			continue
		}
		old := vc.ghostGet(vc.entry, g)
		if cur == old {
			continue
		}
		clause := fmt.Sprintf("%s/frame/ghost.%s", vc.fn.Key, g)
		vc.emit(st, "frame", clause, fmt.Sprintf("ret%d", ord), fmt.Sprintf("(= %s %s)", cur, old), pos, "ghost "+g+" unchanged")
	}
	for o, cur := range st.globals {
		if globalOK[o.Name()] {
			continue
		}
		old := vc.globalInit(o)
		if cur == old {
			continue
		}
		clause := fmt.Sprintf("%s/frame/global.%s", vc.fn.Key, o.Name())
		vc.emit(st, "frame", clause, fmt.Sprintf("ret%d", ord), fmt.Sprintf("(= %s %s)", cur, old), pos, "global "+o.Name()+" unchanged")
	}
}

func sortStrings(a []string) {
	for i := 1; i < len(a); i++ {
		for j := i; j > 0 && a[j] < a[j-1]; j-- {
			a[j], a[j-1] = a[j-1], a[j]
		}
	}
}

// ---------- boxed locals (address-taken struct variables) ----------

func (vc *VC) scanBoxedAndCaptured(body *ast.BlockStmt) {
	if body == nil {
		return
	}
	ast.Inspect(body, func(n ast.Node) bool {
		switch x := n.(type) {
		case *ast.UnaryExpr:
			if x.Op == token.AND {
				if id, ok := x.X.(*ast.Ident); ok {
					if o, ok := vc.eng.info.ObjectOf(id).(*types.Var); ok && !o.IsField() {
						box := false
						if nn, _ := namedStructOf(o.Type()); nn != nil && vc.eng.inPkg(nn) {
							box = true
						}
						if at, ok := o.Type().Underlying().(*types.Array); ok && isByteArraySmall(at) {
							box = true // small byte arrays are Int values; their box lives in the generic pointee heap
						}
						if box {
							if _, done := vc.boxed[o]; !done {
								vc.boxed[o] = types.NewVar(o.Pos(), o.Pkg(), "&"+o.Name(), types.NewPointer(o.Type()))
							}
						}
					}
				}
			}
		case *ast.FuncLit:
			// variables assigned inside closures
			ast.Inspect(x.Body, func(m ast.Node) bool {
				switch y := m.(type) {
				case *ast.AssignStmt:
					for _, l := range y.Lhs {
						if id, ok := l.(*ast.Ident); ok {
							if o, ok := vc.eng.info.ObjectOf(id).(*types.Var); ok {
								if o.Pos() < x.Pos() || o.Pos() > x.End() {
									vc.capturedAssigned[o] = true
								}
							}
						}
					}
				case *ast.IncDecStmt:
					if id, ok := y.X.(*ast.Ident); ok {
						if o, ok := vc.eng.info.ObjectOf(id).(*types.Var); ok {
							if o.Pos() < x.Pos() || o.Pos() > x.End() {
								vc.capturedAssigned[o] = true
							}
						}
					}
				}
				return true
			})
		}
		return true
	})
}

func (vc *VC) needsBox(o *types.Var) bool {
	_, ok := vc.boxed[o]
	return ok
}

func (vc *VC) boxKey(o *types.Var) types.Object { return vc.boxed[o] }

func (vc *VC) boxedLocal(o *types.Var) string {
	if b, ok := vc.boxed[o]; ok {
		return b.Name()
	}
	return ""
}

func (vc *VC) paramShadow(p *types.Var) types.Object {
	if s, ok := vc.shadow[p]; ok {
		return s
	}
	return p
}

func (vc *VC) initBoxed(st *State, o *types.Var, v Val) {
	ptrT := types.NewPointer(o.Type())
	p := vc.allocObject(st, v, ptrT)
	st.locals[vc.boxed[o]] = p.S
}

func (vc *VC) readBoxed(st *State, o *types.Var) Val {
	b := vc.boxed[o]
	pt, ok := st.locals[b]
	if !ok {
		// declared with var before first use? allocate lazily with zero value
		vc.initBoxed(st, o, vc.mk(vc.eng.sorts.zero(o.Type()), o.Type()))
		pt = st.locals[b]
	}
	return vc.deref(st, Val{S: pt, Ty: b.Type(), Sort: "Int"}, token.NoPos)
}

func (vc *VC) writeBoxed(st *State, o *types.Var, v Val) {
	b := vc.boxed[o]
	pt, ok := st.locals[b]
	if !ok {
		vc.initBoxed(st, o, v)
		return
	}
	vc.storeDeref(st, Val{S: pt, Ty: b.Type(), Sort: "Int"}, v, token.NoPos)
}

// ---------- ghost bookkeeping hooks ----------

// noteWrite: a field of object ptr (of struct type n) was written
func (vc *VC) noteWrite(st *State, ptr Val, n *types.Named) {
	if !vc.eng.trackTouched || !vc.eng.isSlabType(n) {
		return
	}
	cur := vc.ghostGet(st, "touched")
	st.ghost["touched"] = vc.define("g_touched", "(Array Int Bool)", fmt.Sprintf("(store %s %s true)", cur, ptr.S))
}

func (vc *VC) noteFresh(st *State, ptr Val, n *types.Named) {}

// noteFreshOrigin: a newly made backing store (make, slices.Clone, composite literal) is distinct from every backing store that
// exists so far; origins share the allocation set with objects
func (vc *VC) noteFreshOrigin(st *State, org string) {
	vc.assume(st, fmt.Sprintf("(and (> %s 0) (not (select %s %s)))", org, st.alloc, org))
	st.alloc = vc.define("alloc", "(Array Int Bool)", fmt.Sprintf("(store %s %s true)", st.alloc, org))
}

func (vc *VC) recordAlloc(st *State, c *ast.CallExpr, n Val, hasCap bool) {
	// allocation-size obligations (C19) are emitted only for functions that opt in
	if vc.contract == nil || vc.contract.Options["alloc-bound"] == "" {
		return
	}
	boundSrc := vc.contract.Options["alloc-bound"]
	e, err := parseSpecExpr(boundSrc)
	if err != nil {
		vc.unsupportedf(c.Pos(), "bad alloc-bound option: %v", err)
		return
	}
	b := vc.specEval(st, vc.entry, e, nil, nil)
	vc.emit(st, "alloc", vc.fn.Key+"/alloc", vc.site("alloc"), fmt.Sprintf("(<= %s %s)", n.S, b.S), c.Pos(), "allocation bounded by "+boundSrc)
}


// findTopLevelLoop returns the index of the top-level statement that is the n-th loop of the function (1-based, counting
// nested loops in source order) and the number of loops that precede it.
func (vc *VC) findTopLevelLoop(stmts []ast.Stmt, n int) (int, int) {
	count := 0
	for i, s := range stmts {
		inner := s
		if ls, ok := s.(*ast.LabeledStmt); ok {
			inner = ls.Stmt
		}
		switch inner.(type) {
		case *ast.ForStmt, *ast.RangeStmt:
			if count+1 == n {
				return i, count
			}
		}
		ast.Inspect(s, func(nd ast.Node) bool {
			switch nd.(type) {
			case *ast.FuncLit:
				return false
			case *ast.ForStmt, *ast.RangeStmt:
				count++
			}
			return true
		})
	}
	return -1, 0
}


// assumeLemmas: instantiate the lemmas named in `uses` for the current state: parameters that resolve to names of the function
// are bound to them, the others are universally quantified.
func (vc *VC) assumeLemmas(st *State) {
	if vc.contract == nil {
		return
	}
	for _, use := range vc.contract.Uses {
		name := use
		var argSrc []string
		if i := strings.Index(use, "("); i > 0 && strings.HasSuffix(use, ")") {
			name = strings.TrimSpace(use[:i])
			argSrc = splitTopLevel(use[i+1 : len(use)-1])
		}
		var lm *Lemma
		for _, l := range vc.eng.specs.Lemmas {
			if l.Name == name {
				lm = l
			}
		}
		if lm == nil {
			vc.unsupportedf(token.NoPos, "uses: unknown lemma %s", name)
			continue
		}
		env := map[string]Val{}
		var qvars []SQVar
		c := &specCtx{vc: vc, cur: st, old: vc.entry, bound: map[string]Val{}}
		for i, p := range lm.Params {
			if i < len(argSrc) {
				ae, err := parseSpecExpr(strings.TrimSpace(argSrc[i]))
				if err != nil {
					vc.unsupportedf(token.NoPos, "uses %s: %v", use, err)
					continue
				}
				env[p.Name] = c.eval(ae)
				continue
			}
			if argSrc != nil {
				qvars = append(qvars, p)
				continue
			}
			if v, ok := c.localByName(p.Name); ok {
				env[p.Name] = v
			} else {
				qvars = append(qvars, p)
			}
		}
		var body SExpr
		for _, en := range lm.Ensures {
			if body == nil {
				body = en.Expr
			} else {
				body = &SBin{Op: "&&", L: body, R: en.Expr}
			}
		}
		// premises that do not mention the quantified parameters are established once, outside the quantifier
		qnames := map[string]bool{}
		for _, q := range qvars {
			qnames[q.Name] = true
		}
		var ground, dependent []SExpr
		for _, rq := range lm.Requires {
			for _, cj := range flattenAnd(rq.Expr) {
				if mentionsAny(cj, qnames) {
					dependent = append(dependent, cj)
				} else {
					ground = append(ground, cj)
				}
			}
		}
		for i := len(dependent) - 1; i >= 0; i-- {
			body = &SBin{Op: "==>", L: dependent[i], R: body}
		}
		if len(qvars) > 0 {
			body = &SQuant{Forall: true, Vars: qvars, Body: body, Triggers: lm.Triggers}
		}
		c2 := &specCtx{vc: vc, cur: st, old: vc.entry, bound: env}
		v := c2.eval(body)
		if v.Sort != "Bool" {
			continue
		}
		fact := v.S
		if len(ground) > 0 {
			var gs []string
			for _, g := range ground {
				c3 := &specCtx{vc: vc, cur: st, old: vc.entry, bound: env}
				gs = append(gs, c3.eval(g).S)
			}
			fact = fmt.Sprintf("(=> (and %s true) %s)", strings.Join(gs, " "), fact)
		}
		vc.assume(st, fact)
		vc.usedLemmas[name] = true
	}
}


func flattenAnd(e SExpr) []SExpr {
	if b, ok := e.(*SBin); ok && b.Op == "&&" {
		return append(flattenAnd(b.L), flattenAnd(b.R)...)
	}
	return []SExpr{e}
}

func mentionsAny(e SExpr, names map[string]bool) bool {
	switch x := e.(type) {
	case *SIdent:
		return names[x.Name]
	case *SBin:
		return mentionsAny(x.L, names) || mentionsAny(x.R, names)
	case *SUn:
		return mentionsAny(x.X, names)
	case *SCall:
		for _, a := range x.Args {
			if mentionsAny(a, names) {
				return true
			}
		}
	case *SSel:
		return mentionsAny(x.X, names)
	case *SIndex:
		return mentionsAny(x.X, names) || mentionsAny(x.I, names)
	case *SQuant:
		return mentionsAny(x.Body, names)
	case *STypeAssert:
		return mentionsAny(x.X, names)
	}
	return false
}
