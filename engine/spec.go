package main

// Contract language: lexer, parser, contract-file reader.
// Contracts live in /repo/verif_contracts_*.go as `//@` comment lines.

import (
	"fmt"
	"os"
	"path/filepath"
	"sort"
	"strconv"
	"strings"
)

// ---------- spec expression AST ----------

type SExpr interface{}

type SIdent struct{ Name string }
type SInt struct{ V string }
type SBool struct{ V bool }
type SNil struct{}
type SStr struct{ V string }
type SBin struct {
	Op   string
	L, R SExpr
}
type SUn struct {
	Op string
	X  SExpr
}
type SCall struct {
	Fun  string
	Args []SExpr
}
type SSel struct {
	X    SExpr
	Name string
}
type SIndex struct{ X, I SExpr }
type SSliceE struct{ X, Lo, Hi SExpr }
type SQVar struct{ Name, Type string }
type SQuant struct {
	Forall   bool
	Vars     []SQVar
	Body     SExpr
	Triggers [][]SExpr
}
type STypeAssert struct { // x.(T)
	X SExpr
	T string
}

// ---------- lexer ----------

type tok struct {
	kind string // id int str op eof
	s    string
	pos  int
}

func lexSpec(src string) ([]tok, error) {
	var out []tok
	i := 0
	for i < len(src) {
		c := src[i]
		switch {
		case c == ' ' || c == '\t' || c == '\n' || c == '\r':
			i++
		case c == '_' || (c >= 'a' && c <= 'z') || (c >= 'A' && c <= 'Z'):
			j := i
			for j < len(src) && (src[j] == '_' || (src[j] >= 'a' && src[j] <= 'z') || (src[j] >= 'A' && src[j] <= 'Z') || (src[j] >= '0' && src[j] <= '9')) {
				j++
			}
			out = append(out, tok{"id", src[i:j], i})
			i = j
		case c >= '0' && c <= '9':
			j := i
			for j < len(src) && ((src[j] >= '0' && src[j] <= '9') || src[j] == 'x' || (src[j] >= 'a' && src[j] <= 'f') || (src[j] >= 'A' && src[j] <= 'F') || src[j] == '_') {
				j++
			}
			out = append(out, tok{"int", src[i:j], i})
			i = j
		case c == '"':
			j := i + 1
			for j < len(src) && src[j] != '"' {
				j++
			}
			if j >= len(src) {
				return nil, fmt.Errorf("unterminated string at %d", i)
			}
			out = append(out, tok{"str", src[i+1 : j], i})
			i = j + 1
		default:
			ops := []string{"<==>", "==>", "::", "==", "!=", "<=", ">=", "&&", "||", "<<", ">>", "+", "-", "*", "/", "%", "<", ">", "!", "(", ")", "[", "]", ",", ".", ":", "{", "}", "&", "|", "^"}
			matched := false
			for _, op := range ops {
				if strings.HasPrefix(src[i:], op) {
					out = append(out, tok{"op", op, i})
					i += len(op)
					matched = true
					break
				}
			}
			if !matched {
				return nil, fmt.Errorf("unexpected character %q at %d in %q", c, i, src)
			}
		}
	}
	out = append(out, tok{"eof", "", len(src)})
	return out, nil
}

// ---------- parser (precedence climbing) ----------

type sparser struct {
	toks []tok
	p    int
	src  string
}

func (p *sparser) peek() tok { return p.toks[p.p] }
func (p *sparser) next() tok { t := p.toks[p.p]; p.p++; return t }
func (p *sparser) isOp(s string) bool {
	t := p.peek()
	return t.kind == "op" && t.s == s
}
func (p *sparser) expectOp(s string) error {
	if !p.isOp(s) {
		return fmt.Errorf("expected %q at %d in %q (got %q)", s, p.peek().pos, p.src, p.peek().s)
	}
	p.next()
	return nil
}

func parseSpecExpr(src string) (SExpr, error) {
	toks, err := lexSpec(src)
	if err != nil {
		return nil, err
	}
	p := &sparser{toks: toks, src: src}
	e, err := p.parseExpr()
	if err != nil {
		return nil, err
	}
	if p.peek().kind != "eof" {
		return nil, fmt.Errorf("trailing tokens at %d (%q) in %q", p.peek().pos, p.peek().s, src)
	}
	return e, nil
}

// precedence: <==> (1) ; ==> (2, right assoc) ; || (3) ; && (4) ; cmp (5) ; + - | ^ (6) ; * / % << >> & (7)
var binPrec = map[string]int{
	"<==>": 1, "==>": 2, "||": 3, "&&": 4,
	"==": 5, "!=": 5, "<": 5, "<=": 5, ">": 5, ">=": 5,
	"+": 6, "-": 6, "|": 6, "^": 6,
	"*": 7, "/": 7, "%": 7, "<<": 7, ">>": 7, "&": 7,
}

func (p *sparser) parseExpr() (SExpr, error) {
	t := p.peek()
	if t.kind == "id" && (t.s == "forall" || t.s == "exists") {
		return p.parseQuant()
	}
	return p.parseBin(1)
}

func (p *sparser) parseQuant() (SExpr, error) {
	t := p.next()
	q := &SQuant{Forall: t.s == "forall"}
	for {
		v := p.next()
		if v.kind != "id" {
			return nil, fmt.Errorf("expected bound variable at %d in %q", v.pos, p.src)
		}
		qv := SQVar{Name: v.s, Type: "int"}
		// optional type (possibly pointer / qualified)
		if !(p.isOp(",") || p.isOp("::")) {
			ty := ""
			for !(p.isOp(",") || p.isOp("::")) {
				x := p.next()
				if x.kind == "eof" {
					return nil, fmt.Errorf("unterminated quantifier in %q", p.src)
				}
				ty += x.s
			}
			qv.Type = ty
		}
		q.Vars = append(q.Vars, qv)
		if p.isOp(",") {
			p.next()
			continue
		}
		break
	}
	if err := p.expectOp("::"); err != nil {
		return nil, err
	}
	// optional triggers: { e1, e2 } { e3 }
	for p.isOp("{") {
		p.next()
		var grp []SExpr
		for !p.isOp("}") {
			e, err := p.parseExpr()
			if err != nil {
				return nil, err
			}
			grp = append(grp, e)
			if p.isOp(",") {
				p.next()
			}
		}
		p.next()
		q.Triggers = append(q.Triggers, grp)
	}
	body, err := p.parseExpr()
	if err != nil {
		return nil, err
	}
	q.Body = body
	return q, nil
}

func (p *sparser) parseBin(minPrec int) (SExpr, error) {
	lhs, err := p.parseUnary()
	if err != nil {
		return nil, err
	}
	for {
		t := p.peek()
		if t.kind != "op" {
			break
		}
		prec, ok := binPrec[t.s]
		if !ok || prec < minPrec {
			break
		}
		p.next()
		var rhs SExpr
		// a quantifier may appear as the right operand of a connective
		if nt := p.peek(); nt.kind == "id" && (nt.s == "forall" || nt.s == "exists") {
			rhs, err = p.parseQuant()
		} else if t.s == "==>" {
			rhs, err = p.parseBin(prec) // right assoc
		} else {
			rhs, err = p.parseBin(prec + 1)
		}
		if err != nil {
			return nil, err
		}
		lhs = &SBin{Op: t.s, L: lhs, R: rhs}
	}
	return lhs, nil
}

func (p *sparser) parseUnary() (SExpr, error) {
	t := p.peek()
	if t.kind == "op" && (t.s == "!" || t.s == "-") {
		p.next()
		x, err := p.parseUnary()
		if err != nil {
			return nil, err
		}
		return &SUn{Op: t.s, X: x}, nil
	}
	return p.parsePostfix()
}

func (p *sparser) parseTypeText(closer string) (string, error) {
	// read tokens until matching closer at depth 0
	depth := 0
	s := ""
	for {
		t := p.peek()
		if t.kind == "eof" {
			return "", fmt.Errorf("unterminated type in %q", p.src)
		}
		if t.kind == "op" && t.s == closer && depth == 0 {
			return s, nil
		}
		if t.kind == "op" && (t.s == "(" || t.s == "[") {
			depth++
		}
		if t.kind == "op" && (t.s == ")" || t.s == "]") {
			depth--
		}
		s += t.s
		p.next()
	}
}

func (p *sparser) parsePostfix() (SExpr, error) {
	x, err := p.parsePrimary()
	if err != nil {
		return nil, err
	}
	for {
		switch {
		case p.isOp("."):
			p.next()
			if p.isOp("(") { // type assertion x.(T)
				p.next()
				ty, err := p.parseTypeText(")")
				if err != nil {
					return nil, err
				}
				p.next()
				x = &STypeAssert{X: x, T: ty}
				continue
			}
			n := p.next()
			if n.kind != "id" {
				return nil, fmt.Errorf("expected field name at %d in %q", n.pos, p.src)
			}
			x = &SSel{X: x, Name: n.s}
		case p.isOp("["):
			p.next()
			var lo, hi SExpr
			if !p.isOp(":") {
				lo, err = p.parseExpr()
				if err != nil {
					return nil, err
				}
			}
			if p.isOp(":") {
				p.next()
				if !p.isOp("]") {
					hi, err = p.parseExpr()
					if err != nil {
						return nil, err
					}
				}
				if err := p.expectOp("]"); err != nil {
					return nil, err
				}
				x = &SSliceE{X: x, Lo: lo, Hi: hi}
			} else {
				if err := p.expectOp("]"); err != nil {
					return nil, err
				}
				x = &SIndex{X: x, I: lo}
			}
		default:
			return x, nil
		}
	}
}

func (p *sparser) parsePrimary() (SExpr, error) {
	t := p.next()
	switch t.kind {
	case "int":
		s := strings.ReplaceAll(t.s, "_", "")
		v, err := strconv.ParseUint(s, 0, 64)
		if err != nil {
			return nil, fmt.Errorf("bad integer %q", t.s)
		}
		return &SInt{V: strconv.FormatUint(v, 10)}, nil
	case "str":
		return &SStr{V: t.s}, nil
	case "id":
		switch t.s {
		case "true":
			return &SBool{true}, nil
		case "false":
			return &SBool{false}, nil
		case "nil":
			return &SNil{}, nil
		}
		if p.isOp("(") {
			p.next()
			// is(x, T) / as(x, T) / zero(T): second arg is a type
			var args []SExpr
			for !p.isOp(")") {
				if (t.s == "is" || t.s == "as" || t.s == "errAs") && len(args) == 1 || (t.s == "zero" && len(args) == 0) || (t.s == "tid" && len(args) == 0) {
					ty, err := p.parseTypeText(")")
					if err != nil {
						return nil, err
					}
					args = append(args, &SStr{V: ty})
					break
				}
				a, err := p.parseExpr()
				if err != nil {
					return nil, err
				}
				args = append(args, a)
				if p.isOp(",") {
					p.next()
				} else {
					break
				}
			}
			if err := p.expectOp(")"); err != nil {
				return nil, err
			}
			return &SCall{Fun: t.s, Args: args}, nil
		}
		return &SIdent{Name: t.s}, nil
	case "op":
		if t.s == "(" {
			e, err := p.parseExpr()
			if err != nil {
				return nil, err
			}
			if err := p.expectOp(")"); err != nil {
				return nil, err
			}
			return e, nil
		}
	}
	return nil, fmt.Errorf("unexpected token %q at %d in %q", t.s, t.pos, p.src)
}

// ---------- contract declarations ----------

type Clause struct {
	Kind   string // requires ensures invariant
	Tags   []string
	Src    string
	Expr   SExpr
	Ord    int // ordinal among same kind in this decl (1-based)
	File   string
	Line   int
	Assume bool // for "assume"
	Reason string
}

type LoopSpec struct {
	Ord        int
	Invariants []*Clause
	Modifies   []string // extra havoc hints (unused for now)
}

type Contract struct {
	Key       string // "Recv.Name" or "Name", closures "Outer#k"
	Kind      string // func | extern | iface | functype
	RecvName  string
	Params    []string // positional names (optional)
	Results   []string // positional names (optional)
	Serves    []string
	Requires  []*Clause
	Ensures   []*Clause
	Exits     []*Clause // exit-state assertions that may mention locals
	Befores   map[string][]*Clause // assertions in the state just before each call of the named callee
	Modifies  []string // location specs; nil => default frame; "nothing" => none
	HasModif  bool
	Pure      bool
	Loops     map[int]*LoopSpec
	Assumes   []*Clause // assume at entry, with reason (listed)
	Trusted   bool      // contract is assumed, body not verified
	NoInline  bool
	File      string
	Line      int
	Options   map[string]string
	Uses      []string // lemmas made available (entry and loop heads)
	Recvs     map[int][]*Clause // assumptions about the n-th channel receive
	GhostDefs []*Clause         // post-conditions that define ghost state: assumed at call sites, not checked on the body (listed)
	AtCuts    []*Clause         // assertions at the concurrency cut
	Conform   []string          // iface contracts: implementers to verify against this contract
	ImplOf    string            // synthesized conformance view: key of the iface contract it checks
	AltRecv   string            // conformance view: the implementer's own receiver name (its loop invariants use it)
	AltParams []string          // conformance view: the implementer's own positional parameter names
}

type Pred struct {
	Name   string
	Params []SQVar
	Body   SExpr
	Src    string
}

type Lemma struct {
	Name      string
	Params    []SQVar
	Induction string
	Requires  []*Clause
	Ensures   []*Clause
	Serves    []string
	Trusted   bool
	Reason    string
	File      string
	Line      int
	Triggers  [][]SExpr
}

type GhostDecl struct {
	Name string
	Type string
}

type SpecDB struct {
	Contracts map[string]*Contract
	Preds     map[string]*Pred
	Lemmas    []*Lemma
	Ghosts    map[string]*GhostDecl
	Axioms    []*Clause // global assumed axioms with reasons
	Order     []string
	Census    []*Census // structural censuses (e.g. which functions may contain a range-over-map loop)
}

// Census: "census <prop> map-range: F1, F2, ..." - the functions of the package that contain a range-over-map loop are among the listed
// ones (each of which is under a contract that shows order independence, or is declared order-relaxed in DESIGN.md).
type Census struct {
	Prop    string
	Kind    string
	Allowed map[string]bool
	Src     string
}

type rawDecl struct {
	file  string
	line  int
	lines []string // logical clause lines (continuations joined)
	lnums []int
}

func loadSpecs(dir string) (*SpecDB, error) {
	files, _ := filepath.Glob(filepath.Join(dir, "verif_contracts_*.go"))
	sort.Strings(files)
	db := &SpecDB{Contracts: map[string]*Contract{}, Preds: map[string]*Pred{}, Ghosts: map[string]*GhostDecl{}}
	for _, f := range files {
		b, err := os.ReadFile(f)
		if err != nil {
			return nil, err
		}
		if err := db.parseFile(f, string(b)); err != nil {
			return nil, err
		}
	}
	return db, nil
}

var declStarters = map[string]bool{"func": true, "extern": true, "iface": true, "functype": true, "pred": true, "lemma": true, "ghost": true, "axiom": true, "census": true}

func (db *SpecDB) parseFile(fname, text string) error {
	// collect //@ lines with their indentation
	type ln struct {
		indent int
		s      string
		n      int
	}
	var lines []ln
	for i, l := range strings.Split(text, "\n") {
		t := strings.TrimLeft(l, " \t")
		if !strings.HasPrefix(t, "//@") {
			continue
		}
		body := t[3:]
		if strings.TrimSpace(body) == "" {
			continue
		}
		if strings.HasPrefix(strings.TrimSpace(body), "#") { // spec comment
			continue
		}
		ind := len(body) - len(strings.TrimLeft(body, " \t"))
		// strip trailing spec comments introduced by " //"
		if k := strings.Index(body, " // "); k >= 0 {
			body = body[:k]
		}
		lines = append(lines, ln{ind, strings.TrimSpace(body), i + 1})
	}
	// group into decls: a decl starts at a line whose first word is a starter and indent <= 1
	var decls []*rawDecl
	var cur *rawDecl
	lastIndent := 0
	for _, l := range lines {
		first := clauseWord(l.s)
		if declStarters[first] && l.indent <= 1 {
			cur = &rawDecl{file: fname, line: l.n}
			decls = append(decls, cur)
			cur.lines = append(cur.lines, l.s)
			cur.lnums = append(cur.lnums, l.n)
			lastIndent = l.indent
			continue
		}
		if cur == nil {
			return fmt.Errorf("%s:%d: clause outside declaration", fname, l.n)
		}
		if isClauseStart(first) && l.indent <= clauseIndentOf(cur, lastIndent) {
			cur.lines = append(cur.lines, l.s)
			cur.lnums = append(cur.lnums, l.n)
			lastIndent = l.indent
		} else {
			// continuation
			cur.lines[len(cur.lines)-1] += " " + l.s
		}
	}
	for _, d := range decls {
		if err := db.parseDecl(d); err != nil {
			return fmt.Errorf("%s:%d: %v", d.file, d.line, err)
		}
	}
	return nil
}

func clauseIndentOf(d *rawDecl, last int) int {
	if len(d.lines) == 1 {
		return 100
	}
	return last
}

// clauseWord: first word of a clause line; a tag list in brackets may contain spaces: ensures[C01 C03]
func clauseWord(l string) string {
	l = strings.TrimSpace(l)
	i := strings.IndexAny(l, " \t[")
	if i < 0 {
		return l
	}
	if l[i] == '[' {
		if j := strings.Index(l, "]"); j > i {
			return l[:j+1]
		}
	}
	return l[:i]
}

func isClauseStart(w string) bool {
	switch w {
	case "requires", "ensures", "exit", "before", "modifies", "pure", "loop", "assume", "trusted", "noinline", "serves", "option", "induction", "uses", "trigger", "recv", "ghostdef", "conform", "atcut":
		return true
	}
	return strings.HasPrefix(w, "ensures[") || strings.HasPrefix(w, "requires[") || strings.HasPrefix(w, "exit[") || strings.HasPrefix(w, "before[") || strings.HasPrefix(w, "atcut[")
}

func splitTags(word string) (string, []string) {
	if i := strings.Index(word, "["); i >= 0 && strings.HasSuffix(word, "]") {
		return word[:i], strings.Fields(strings.ReplaceAll(word[i+1:len(word)-1], ",", " "))
	}
	return word, nil
}

func parseParamList(s string) []string {
	s = strings.TrimSpace(s)
	if s == "" {
		return nil
	}
	var out []string
	for _, p := range strings.Split(s, ",") {
		f := strings.Fields(strings.TrimSpace(p))
		if len(f) > 0 {
			out = append(out, f[0])
		}
	}
	return out
}

func parseTypedParams(s string) []SQVar {
	s = strings.TrimSpace(s)
	if s == "" {
		return nil
	}
	var out []SQVar
	for _, p := range strings.Split(s, ",") {
		f := strings.Fields(strings.TrimSpace(p))
		if len(f) == 0 {
			continue
		}
		v := SQVar{Name: f[0], Type: "int"}
		if len(f) > 1 {
			v.Type = strings.Join(f[1:], "")
		}
		out = append(out, v)
	}
	return out
}

func (db *SpecDB) parseDecl(d *rawDecl) error {
	head := d.lines[0]
	first := strings.Fields(head)[0]
	rest := strings.TrimSpace(head[len(first):])
	switch first {
	case "ghost":
		// ghost name : type
		parts := strings.SplitN(rest, ":", 2)
		if len(parts) != 2 {
			return fmt.Errorf("bad ghost decl")
		}
		g := &GhostDecl{Name: strings.TrimSpace(parts[0]), Type: strings.TrimSpace(parts[1])}
		db.Ghosts[g.Name] = g
		return nil
	case "pred":
		// pred name(params) = expr
		i := strings.Index(rest, "(")
		j := matchParen(rest, i)
		if i < 0 || j < 0 {
			return fmt.Errorf("bad pred decl %q", rest)
		}
		name := strings.TrimSpace(rest[:i])
		params := parseTypedParams(rest[i+1 : j])
		after := strings.TrimSpace(rest[j+1:])
		if !strings.HasPrefix(after, "=") {
			return fmt.Errorf("pred %s: expected '='", name)
		}
		body := strings.TrimSpace(after[1:])
		for _, l := range d.lines[1:] {
			body += " " + l
		}
		e, err := parseSpecExpr(body)
		if err != nil {
			return fmt.Errorf("pred %s: %v", name, err)
		}
		db.Preds[name] = &Pred{Name: name, Params: params, Body: e, Src: body}
		return nil
	case "census":
		// census C04 map-range: F1, F2, ...
		body := rest
		for _, l := range d.lines[1:] {
			body += " " + l
		}
		k := strings.Index(body, ":")
		hd := strings.Fields(body[:max(k, 0)])
		if k < 0 || len(hd) != 2 {
			return fmt.Errorf("census: want 'census <prop> <kind>: names'")
		}
		c := &Census{Prop: hd[0], Kind: hd[1], Allowed: map[string]bool{}, Src: strings.TrimSpace(body)}
		for _, n := range strings.Split(body[k+1:], ",") {
			if n = strings.TrimSpace(n); n != "" {
				c.Allowed[n] = true
			}
		}
		db.Census = append(db.Census, c)
		return nil
	case "axiom":
		// axiom expr because "reason"
		body := rest
		for _, l := range d.lines[1:] {
			body += " " + l
		}
		reason := ""
		if k := strings.LastIndex(body, " because "); k >= 0 {
			reason = strings.Trim(strings.TrimSpace(body[k+9:]), "\"")
			body = body[:k]
		}
		e, err := parseSpecExpr(body)
		if err != nil {
			return fmt.Errorf("axiom: %v", err)
		}
		db.Axioms = append(db.Axioms, &Clause{Kind: "axiom", Src: body, Expr: e, Reason: reason, File: d.file, Line: d.line, Ord: len(db.Axioms) + 1})
		return nil
	case "lemma":
		i := strings.Index(rest, "(")
		j := matchParen(rest, i)
		if i < 0 || j < 0 {
			return fmt.Errorf("bad lemma decl")
		}
		lm := &Lemma{Name: strings.TrimSpace(rest[:i]), Params: parseTypedParams(rest[i+1 : j]), File: d.file, Line: d.line}
		tail := strings.Fields(rest[j+1:])
		for k := 0; k < len(tail); k++ {
			if tail[k] == "induction" && k+1 < len(tail) {
				lm.Induction = tail[k+1]
				k++
			} else if tail[k] == "serves" {
				lm.Serves = append(lm.Serves, tail[k+1:]...)
				break
			}
		}
		for idx, l := range d.lines[1:] {
			w := clauseWord(l)
			body := strings.TrimSpace(l[len(w):])
			kw, tags := splitTags(w)
			switch kw {
			case "requires", "ensures":
				e, err := parseSpecExpr(body)
				if err != nil {
					return fmt.Errorf("lemma %s: %v", lm.Name, err)
				}
				c := &Clause{Kind: kw, Tags: tags, Src: body, Expr: e, File: d.file, Line: d.lnums[idx+1]}
				if kw == "requires" {
					c.Ord = len(lm.Requires) + 1
					lm.Requires = append(lm.Requires, c)
				} else {
					c.Ord = len(lm.Ensures) + 1
					lm.Ensures = append(lm.Ensures, c)
				}
			case "trusted":
				lm.Trusted = true
				lm.Reason = strings.Trim(body, "\"")
			case "trigger":
				// trigger { e1, e2 }
				b := strings.TrimSpace(body)
				b = strings.TrimSuffix(strings.TrimPrefix(b, "{"), "}")
				var grp []SExpr
				for _, part := range splitTopLevel(b) {
					e, err := parseSpecExpr(strings.TrimSpace(part))
					if err != nil {
						return fmt.Errorf("lemma %s: trigger: %v", lm.Name, err)
					}
					grp = append(grp, e)
				}
				lm.Triggers = append(lm.Triggers, grp)
			case "serves":
				lm.Serves = append(lm.Serves, strings.Fields(body)...)
			default:
				return fmt.Errorf("lemma %s: unknown clause %q", lm.Name, w)
			}
		}
		db.Lemmas = append(db.Lemmas, lm)
		return nil
	}
	// func / extern / iface / functype
	c := &Contract{Kind: first, Loops: map[int]*LoopSpec{}, File: d.file, Line: d.line, Options: map[string]string{}}
	if err := parseFuncHeader(c, rest); err != nil {
		return err
	}
	if first == "extern" {
		c.Trusted = true
	}
	for idx, l := range d.lines[1:] {
		w := clauseWord(l)
		body := strings.TrimSpace(l[len(w):])
		kw, tags := splitTags(w)
		mk := func(kind, src string) (*Clause, error) {
			e, err := parseSpecExpr(src)
			if err != nil {
				return nil, fmt.Errorf("%s: %v", c.Key, err)
			}
			return &Clause{Kind: kind, Tags: tags, Src: src, Expr: e, File: d.file, Line: d.lnums[idx+1]}, nil
		}
		switch kw {
		case "requires":
			cl, err := mk("requires", body)
			if err != nil {
				return err
			}
			cl.Ord = len(c.Requires) + 1
			c.Requires = append(c.Requires, cl)
		case "ensures":
			cl, err := mk("ensures", body)
			if err != nil {
				return err
			}
			cl.Ord = len(c.Ensures) + 1
			c.Ensures = append(c.Ensures, cl)
		case "before":
			// before F: expr  -- asserted in the state just before every call of F (a function with a contract) in this body;
			// anchored on the callee's name, sees parameters and locals in scope
			k := strings.Index(body, ":")
			if k < 0 {
				return fmt.Errorf("%s: bad before clause", c.Key)
			}
			callee := strings.TrimSpace(body[:k])
			cl, err := mk("before", strings.TrimSpace(body[k+1:]))
			if err != nil {
				return err
			}
			if c.Befores == nil {
				c.Befores = map[string][]*Clause{}
			}
			cl.Ord = len(c.Befores[callee]) + 1
			c.Befores[callee] = append(c.Befores[callee], cl)
		case "atcut":
			// asserted in the state at the concurrency cut (option stop-at-concurrency): what the sequential prefix establishes
			// for the concurrent phase that follows (e.g. queue capacities)
			cl, err := mk("atcut", body)
			if err != nil {
				return err
			}
			cl.Ord = len(c.AtCuts) + 1
			c.AtCuts = append(c.AtCuts, cl)
		case "exit":
			// exit-state assertion over parameters, results and function-level locals: checked at every return where all
			// names it mentions are in scope; not part of the interface (callers do not see it)
			cl, err := mk("exit", body)
			if err != nil {
				return err
			}
			cl.Ord = len(c.Exits) + 1
			c.Exits = append(c.Exits, cl)
		case "assume":
			reason := ""
			if k := strings.LastIndex(body, " because "); k >= 0 {
				reason = strings.Trim(strings.TrimSpace(body[k+9:]), "\"")
				body = body[:k]
			}
			cl, err := mk("assume", body)
			if err != nil {
				return err
			}
			cl.Assume = true
			cl.Reason = reason
			cl.Ord = len(c.Assumes) + 1
			c.Assumes = append(c.Assumes, cl)
		case "modifies":
			c.HasModif = true
			for _, m := range splitTopLevel(body) {
				m = strings.TrimSpace(m)
				if m != "" && m != "nothing" {
					c.Modifies = append(c.Modifies, m)
				}
			}
		case "pure":
			c.Pure = true
			c.HasModif = true
		case "trusted":
			c.Trusted = true
			c.Options["trusted_reason"] = strings.Trim(body, "\"")
		case "noinline":
			c.NoInline = true
		case "uses":
			c.Uses = append(c.Uses, strings.TrimSpace(body))
		case "ghostdef":
			cl, err := mk("ghostdef", body)
			if err != nil {
				return err
			}
			cl.Ord = len(c.GhostDefs) + 1
			c.GhostDefs = append(c.GhostDefs, cl)
		case "recv":
			// recv N: assume expr because "reason"
			k := strings.Index(body, ":")
			if k < 0 {
				return fmt.Errorf("%s: bad recv clause", c.Key)
			}
			n, err := strconv.Atoi(strings.TrimSpace(body[:k]))
			if err != nil {
				return fmt.Errorf("%s: bad recv ordinal", c.Key)
			}
			rest := strings.TrimSpace(body[k+1:])
			rest = strings.TrimSpace(strings.TrimPrefix(rest, "assume"))
			reason := ""
			if j := strings.LastIndex(rest, " because "); j >= 0 {
				reason = strings.Trim(strings.TrimSpace(rest[j+9:]), "\"")
				rest = rest[:j]
			}
			cl, err := mk("assume", rest)
			if err != nil {
				return err
			}
			cl.Assume = true
			cl.Reason = reason
			if c.Recvs == nil {
				c.Recvs = map[int][]*Clause{}
			}
			c.Recvs[n] = append(c.Recvs[n], cl)
		case "serves":
			c.Serves = append(c.Serves, strings.Fields(body)...)
		case "conform":
			// iface contracts: implementers whose bodies are verified against this contract ("all" = every in-package implementer)
			c.Conform = append(c.Conform, strings.Fields(body)...)
		case "option":
			f := strings.Fields(body)
			if len(f) >= 2 {
				c.Options[f[0]] = strings.Join(f[1:], " ")
			} else if len(f) == 1 {
				c.Options[f[0]] = "true"
			}
		case "loop":
			// loop N: invariant expr
			k := strings.Index(body, ":")
			if k < 0 {
				return fmt.Errorf("%s: bad loop clause", c.Key)
			}
			n, err := strconv.Atoi(strings.TrimSpace(body[:k]))
			if err != nil {
				return fmt.Errorf("%s: bad loop ordinal", c.Key)
			}
			restc := strings.TrimSpace(body[k+1:])
			w2 := strings.Fields(restc)[0]
			src := strings.TrimSpace(restc[len(w2):])
			ls := c.Loops[n]
			if ls == nil {
				ls = &LoopSpec{Ord: n}
				c.Loops[n] = ls
			}
			switch w2 {
			case "invariant":
				cl, err := mk("invariant", src)
				if err != nil {
					return err
				}
				cl.Ord = len(ls.Invariants) + 1
				ls.Invariants = append(ls.Invariants, cl)
			default:
				return fmt.Errorf("%s: unknown loop clause %q", c.Key, w2)
			}
		default:
			return fmt.Errorf("%s: unknown clause %q", c.Key, w)
		}
	}
	if _, dup := db.Contracts[c.Key]; dup {
		return fmt.Errorf("duplicate contract for %s", c.Key)
	}
	db.Contracts[c.Key] = c
	db.Order = append(db.Order, c.Key)
	return nil
}

func matchParen(s string, i int) int {
	if i < 0 || i >= len(s) || s[i] != '(' {
		return -1
	}
	d := 0
	for j := i; j < len(s); j++ {
		if s[j] == '(' {
			d++
		} else if s[j] == ')' {
			d--
			if d == 0 {
				return j
			}
		}
	}
	return -1
}

// header forms:
//   (a *ArrayDataSlab) Split(storage) (left, right, err)  serves C01 C05
//   setThreshold(threshold) (r1,r2,r3,r4) serves C05
//   Array.setCallbackWithChild#1(...)
//   iface:  Storable.ByteSize() (size)
//   extern: slices.Insert ...
func parseFuncHeader(c *Contract, rest string) error {
	rest = strings.TrimSpace(rest)
	// serves
	if k := strings.Index(rest, " serves "); k >= 0 {
		c.Serves = strings.Fields(rest[k+8:])
		rest = strings.TrimSpace(rest[:k])
	}
	recv := ""
	if strings.HasPrefix(rest, "(") {
		j := matchParen(rest, 0)
		if j < 0 {
			return fmt.Errorf("bad receiver in %q", rest)
		}
		r := strings.Fields(rest[1:j])
		if len(r) == 2 {
			c.RecvName = r[0]
			recv = strings.TrimPrefix(r[1], "*")
		} else if len(r) == 1 {
			recv = strings.TrimPrefix(r[0], "*")
		}
		rest = strings.TrimSpace(rest[j+1:])
	}
	name := rest
	if i := strings.Index(rest, "("); i >= 0 {
		name = strings.TrimSpace(rest[:i])
		j := matchParen(rest, i)
		if j < 0 {
			return fmt.Errorf("bad params in %q", rest)
		}
		c.Params = parseParamList(rest[i+1 : j])
		if c.Params == nil {
			c.Params = []string{}
		}
		after := strings.TrimSpace(rest[j+1:])
		if strings.HasPrefix(after, "(") {
			j2 := matchParen(after, 0)
			if j2 < 0 {
				return fmt.Errorf("bad results in %q", rest)
			}
			c.Results = parseParamList(after[1:j2])
		}
	}
	if name == "" {
		return fmt.Errorf("missing function name")
	}
	if recv != "" {
		c.Key = recv + "." + name
	} else {
		c.Key = name
	}
	return nil
}


// splitTopLevel splits on commas that are not nested in parentheses / brackets
func splitTopLevel(s string) []string {
	var out []string
	d := 0
	start := 0
	for i := 0; i < len(s); i++ {
		switch s[i] {
		case '(', '[':
			d++
		case ')', ']':
			d--
		case ',':
			if d == 0 {
				out = append(out, s[start:i])
				start = i + 1
			}
		}
	}
	out = append(out, s[start:])
	return out
}
