package main

// Statement execution: blocks, branches with state merging, loops cut by invariants, returns, defers.

import (
	"fmt"
	"go/ast"
	"go/token"
	"go/types"
	"strings"
)

type flowKind int

const (
	flowBreak flowKind = iota
	flowContinue
)

type jump struct {
	kind  flowKind
	label string
	st    *State
}

// flow: result of executing a statement
type flow struct {
	normal *State
	jumps  []jump
}

func (vc *VC) execBlock(st *State, stmts []ast.Stmt) flow {
	var jumps []jump
	cur := st
	for _, s := range stmts {
		if cur == nil {
			break
		}
		f := vc.exec(cur, s)
		if vc.abandonPath {
			// the statement entered the concurrent phase (cut): this path is not verified further
			vc.abandonPath = false
			return flow{jumps: jumps}
		}
		jumps = append(jumps, f.jumps...)
		cur = f.normal
	}
	return flow{normal: cur, jumps: jumps}
}

func (vc *VC) curFrame() *frame { return vc.frames[len(vc.frames)-1] }

func (vc *VC) exec(st *State, s ast.Stmt) flow {
	if len(vc.unsupported) > 50 {
		return flow{}
	}
	switch x := s.(type) {
	case *ast.BlockStmt:
		return vc.execBlock(st, x.List)
	case *ast.ExprStmt:
		if call, ok := x.X.(*ast.CallExpr); ok {
			if vc.isPanicCall(call) {
				vc.execPanic(st, call)
				return flow{}
			}
			vc.evalCall(st, call)
			return flow{normal: st}
		}
		vc.eval(st, x.X)
		return flow{normal: st}
	case *ast.AssignStmt:
		vc.execAssign(st, x)
		if vc.pendingRecv > 0 && vc.contract != nil {
			for _, cl := range vc.contract.Recvs[vc.pendingRecv] {
				vc.assume(st, vc.specBool(st, nil, cl.Expr, nil, nil))
				vc.noteAssumption(fmt.Sprintf("assume after receive #%d in %s: %s  [%s]", vc.pendingRecv, vc.fn.Key, cl.Src, cl.Reason))
			}
			vc.pendingRecv = 0
		}
		return flow{normal: st}
	case *ast.IncDecStmt:
		v := vc.eval(st, x.X)
		t := vc.typeOf(x.X)
		op := token.ADD
		if x.Tok == token.DEC {
			op = token.SUB
		}
		r := vc.binop(st, op, v, Val{S: "1", Ty: t, Sort: "Int"}, t, t, x.Pos())
		vc.assign(st, x.X, r)
		return flow{normal: st}
	case *ast.DeclStmt:
		gd, ok := x.Decl.(*ast.GenDecl)
		if !ok {
			return flow{normal: st}
		}
		for _, sp := range gd.Specs {
			switch vs := sp.(type) {
			case *ast.ValueSpec:
				if len(vs.Values) == len(vs.Names) {
					for i, n := range vs.Names {
						v := vc.eval(st, vs.Values[i])
						vc.declLocal(st, n, v)
					}
				} else if len(vs.Values) == 0 {
					for _, n := range vs.Names {
						o := vc.eng.info.ObjectOf(n)
						if o == nil || n.Name == "_" {
							continue
						}
						if _, isConst := o.(*types.Const); isConst {
							continue
						}
						vc.declLocal(st, n, vc.mk(vc.eng.sorts.zero(o.Type()), o.Type()))
					}
				} else if len(vs.Values) == 1 {
					vals := vc.evalMulti(st, vs.Values[0], len(vs.Names))
					for i, n := range vs.Names {
						vc.declLocal(st, n, vals[i])
					}
				}
			}
		}
		return flow{normal: st}
	case *ast.ReturnStmt:
		vc.execReturn(st, x)
		return flow{}
	case *ast.IfStmt:
		return vc.execIf(st, x)
	case *ast.ForStmt:
		return vc.execFor(st, x, "")
	case *ast.RangeStmt:
		return vc.execRange(st, x, "")
	case *ast.LabeledStmt:
		switch inner := x.Stmt.(type) {
		case *ast.ForStmt:
			return vc.execFor(st, inner, x.Label.Name)
		case *ast.RangeStmt:
			return vc.execRange(st, inner, x.Label.Name)
		}
		return vc.exec(st, x.Stmt)
	case *ast.BranchStmt:
		label := ""
		if x.Label != nil {
			label = x.Label.Name
		}
		switch x.Tok {
		case token.BREAK:
			return flow{jumps: []jump{{flowBreak, label, st}}}
		case token.CONTINUE:
			return flow{jumps: []jump{{flowContinue, label, st}}}
		}
		vc.unsupportedf(x.Pos(), "branch %s", x.Tok)
		return flow{}
	case *ast.SwitchStmt:
		return vc.execSwitch(st, x)
	case *ast.TypeSwitchStmt:
		return vc.execTypeSwitch(st, x)
	case *ast.DeferStmt:
		fr := vc.curFrame()
		fr.defers = append(fr.defers, deferRec{call: x.Call})
		return flow{normal: st}
	case *ast.EmptyStmt:
		return flow{normal: st}
	case *ast.GoStmt, *ast.SendStmt, *ast.SelectStmt:
		vc.cutState = st
		vc.concurrency(s.Pos(), fmt.Sprintf("%T", s))
		return flow{normal: st}
	}
	vc.unsupportedf(s.Pos(), "statement %T", s)
	return flow{normal: st}
}

func (vc *VC) declLocal(st *State, n *ast.Ident, v Val) {
	if n.Name == "_" {
		return
	}
	o := vc.eng.info.ObjectOf(n)
	if o == nil {
		return
	}
	v = vc.convert(st, v, vc.subst(o.Type()))
	if ov, ok := o.(*types.Var); ok && vc.needsBox(ov) {
		vc.initBoxed(st, ov, v)
		return
	}
	st.locals[o] = vc.define(o.Name(), vc.sortOf(vc.subst(o.Type())), v.S)
}

func (vc *VC) evalMulti(st *State, e ast.Expr, n int) []Val {
	switch x := e.(type) {
	case *ast.ParenExpr:
		return vc.evalMulti(st, x.X, n)
	case *ast.CallExpr:
		vals := vc.evalCall(st, x)
		if len(vals) == n {
			return vals
		}
	case *ast.TypeAssertExpr:
		if n == 2 {
			v, ok := vc.evalTypeAssert(st, x)
			okc := vc.define("ok", "Bool", ok)
			// on failure the value is the zero value
			zv := vc.eng.sorts.zero(v.Ty)
			v.S = vc.define("ta", v.Sort, fmt.Sprintf("(ite %s %s %s)", okc, v.S, zv))
			return []Val{v, {S: okc, Ty: types.Typ[types.Bool], Sort: "Bool"}}
		}
	case *ast.IndexExpr:
		if n == 2 {
			base := vc.eval(st, x.X)
			if mt, ok := base.Ty.Underlying().(*types.Map); ok {
				k := vc.evalConv(st, x.Index, mt.Key())
				v, present := vc.mapLookup(st, base, k)
				return []Val{v, {S: vc.define("ok", "Bool", present), Ty: types.Typ[types.Bool], Sort: "Bool"}}
			}
		}
	case *ast.UnaryExpr:
		if x.Op == token.ARROW {
			vc.unsupportedf(x.Pos(), "channel receive")
		}
	}
	vc.unsupportedf(e.Pos(), "multi-value expression %T", e)
	out := make([]Val, n)
	for i := range out {
		out[i] = Val{S: "0", Sort: "Int", Ty: types.Typ[types.Int]}
	}
	return out
}

func (vc *VC) execAssign(st *State, x *ast.AssignStmt) {
	if x.Tok != token.ASSIGN && x.Tok != token.DEFINE {
		// compound assignment
		var op token.Token
		switch x.Tok {
		case token.ADD_ASSIGN:
			op = token.ADD
		case token.SUB_ASSIGN:
			op = token.SUB
		case token.MUL_ASSIGN:
			op = token.MUL
		case token.QUO_ASSIGN:
			op = token.QUO
		case token.REM_ASSIGN:
			op = token.REM
		case token.OR_ASSIGN:
			op = token.OR
		case token.AND_ASSIGN:
			op = token.AND
		case token.XOR_ASSIGN:
			op = token.XOR
		case token.SHL_ASSIGN:
			op = token.SHL
		case token.SHR_ASSIGN:
			op = token.SHR
		case token.AND_NOT_ASSIGN:
			op = token.AND_NOT
		default:
			vc.unsupportedf(x.Pos(), "assignment op %s", x.Tok)
			return
		}
		l := vc.eval(st, x.Lhs[0])
		t := vc.typeOf(x.Lhs[0])
		if be, ok := ast.Unparen(x.Rhs[0]).(*ast.BinaryExpr); ok && x.Tok == token.ADD_ASSIGN && be.Op == token.SUB && isUnsigned(t) && !vc.bvMode() &&
			types.Identical(vc.typeOf(be), t) {
			// x += a - b on unsigned integers: the machine computes (x + ((a - b) mod N)) mod N = (x + a - b) mod N, which is
			// x + a - b exactly when that value is in range; an intermediate wrap of a - b is benign. One obligation on the result.
			a := vc.eval(st, be.X)
			b := vc.eval(st, be.Y)
			res := vc.wrapArith(st, Val{S: fmt.Sprintf("(- (+ %s %s) %s)", l.S, a.S, b.S), Ty: t, Sort: "Int"}, t, x.Pos())
			vc.notes = append(vc.notes, fmt.Sprintf("%s: x += a - b on unsigned integers modelled as x + a - b with one range obligation on the result (modular identity)", vc.eng.pos(x.Pos())))
			vc.assign(st, x.Lhs[0], res)
			return
		}
		r := vc.eval(st, x.Rhs[0])
		res := vc.binop(st, op, l, r, t, t, x.Pos())
		vc.assign(st, x.Lhs[0], res)
		return
	}
	var vals []Val
	if len(x.Rhs) == 1 && len(x.Lhs) > 1 {
		vals = vc.evalMulti(st, x.Rhs[0], len(x.Lhs))
	} else {
		for _, r := range x.Rhs {
			vals = append(vals, vc.eval(st, r))
		}
	}
	for i, l := range x.Lhs {
		if i >= len(vals) {
			break
		}
		if x.Tok == token.DEFINE {
			if id, ok := l.(*ast.Ident); ok {
				if _, isDef := vc.eng.info.Defs[id]; isDef && vc.eng.info.Defs[id] != nil {
					vc.trackAlias(id, x.Rhs, i)
					vc.declLocal(st, id, vals[i])
					continue
				}
			}
		}
		vc.assign(st, l, vals[i])
	}
}

// trackAlias: remember that a local slice variable was initialised from a field (x := a.f), so that element writes through
// the local are also applied to the field (the two share a backing array in Go).
func (vc *VC) trackAlias(id *ast.Ident, rhs []ast.Expr, i int) {
	o, ok := vc.eng.info.ObjectOf(id).(*types.Var)
	if !ok || i >= len(rhs) {
		return
	}
	if _, isSlice := o.Type().Underlying().(*types.Slice); !isSlice {
		return
	}
	if sel, ok := rhs[i].(*ast.SelectorExpr); ok {
		vc.aliasOf[o] = sel
	}
}

func (vc *VC) isPanicCall(c *ast.CallExpr) bool {
	if id, ok := c.Fun.(*ast.Ident); ok && id.Name == "panic" {
		if _, isB := vc.eng.info.ObjectOf(id).(*types.Builtin); isB {
			return true
		}
	}
	return false
}

func (vc *VC) execPanic(st *State, c *ast.CallExpr) {
	for _, a := range c.Args {
		vc.eval(st, a)
	}
	vc.emit(st, "no-panic", vc.fn.Key+"/no-panic", vc.site("no-panic"), "false", c.Pos(), "panic unreachable")
}

func (vc *VC) execIf(st *State, x *ast.IfStmt) flow {
	if x.Init != nil {
		f := vc.exec(st, x.Init)
		if f.normal == nil {
			return f
		}
		st = f.normal
	}
	c := vc.eval(st, x.Cond)
	cond := vc.define("c", "Bool", c.S)
	thenSt := st.clone()
	thenSt.pc = append(thenSt.pc, cond)
	elseSt := st
	elseSt.pc = append(elseSt.pc, "(not "+cond+")")
	ft := vc.execBlock(thenSt, x.Body.List)
	var fe flow
	if x.Else != nil {
		fe = vc.exec(elseSt, x.Else)
	} else {
		fe = flow{normal: elseSt}
	}
	out := flow{jumps: append(ft.jumps, fe.jumps...)}
	out.normal = vc.merge(ft.normal, fe.normal, cond)
	return out
}

func (vc *VC) execSwitch(st *State, x *ast.SwitchStmt) flow {
	if x.Init != nil {
		f := vc.exec(st, x.Init)
		if f.normal == nil {
			return f
		}
		st = f.normal
	}
	var tag *Val
	var tagT types.Type
	if x.Tag != nil {
		v := vc.eval(st, x.Tag)
		v.S = vc.define("tag", v.Sort, v.S)
		tag = &v
		tagT = vc.typeOf(x.Tag)
	}
	var outs []*State
	var jumps []jump
	cur := st
	var defaultClause *ast.CaseClause
	for _, cs := range x.Body.List {
		cc := cs.(*ast.CaseClause)
		if cc.List == nil {
			defaultClause = cc
			continue
		}
		var conds []string
		for _, e := range cc.List {
			v := vc.eval(cur, e)
			if tag != nil {
				if types.IsInterface(tagT) && !types.IsInterface(v.Ty) {
					v = vc.convert(cur, v, tagT)
				}
				conds = append(conds, fmt.Sprintf("(= %s %s)", tag.S, v.S))
			} else {
				conds = append(conds, v.S)
			}
		}
		cond := conds[0]
		if len(conds) > 1 {
			cond = "(or " + strings.Join(conds, " ") + ")"
		}
		cond = vc.define("sw", "Bool", cond)
		bst := cur.clone()
		bst.pc = append(bst.pc, cond)
		cur.pc = append(cur.pc, "(not "+cond+")")
		f := vc.execBlock(bst, cc.Body)
		outs = append(outs, f.normal)
		jumps = append(jumps, f.jumps...)
		for _, s := range cc.Body {
			if b, ok := s.(*ast.BranchStmt); ok && b.Tok == token.FALLTHROUGH {
				vc.unsupportedf(b.Pos(), "fallthrough")
			}
		}
	}
	if defaultClause != nil {
		f := vc.execBlock(cur, defaultClause.Body)
		outs = append(outs, f.normal)
		jumps = append(jumps, f.jumps...)
	} else {
		outs = append(outs, cur)
	}
	// unlabeled break inside switch terminates the switch
	var rest []jump
	for _, j := range jumps {
		if j.kind == flowBreak && j.label == "" {
			outs = append(outs, j.st)
		} else {
			rest = append(rest, j)
		}
	}
	return flow{normal: vc.mergeAll(outs), jumps: rest}
}

func (vc *VC) execTypeSwitch(st *State, x *ast.TypeSwitchStmt) flow {
	if x.Init != nil {
		f := vc.exec(st, x.Init)
		if f.normal == nil {
			return f
		}
		st = f.normal
	}
	var subject ast.Expr
	var bind *ast.Ident
	switch a := x.Assign.(type) {
	case *ast.AssignStmt:
		bind = a.Lhs[0].(*ast.Ident)
		subject = a.Rhs[0].(*ast.TypeAssertExpr).X
	case *ast.ExprStmt:
		subject = a.X.(*ast.TypeAssertExpr).X
	}
	sv := vc.eval(st, subject)
	sv.S = vc.define("ts", "Int", sv.S)
	var outs []*State
	var jumps []jump
	cur := st
	var defaultClause *ast.CaseClause
	for _, cs := range x.Body.List {
		cc := cs.(*ast.CaseClause)
		if cc.List == nil {
			defaultClause = cc
			continue
		}
		var conds []string
		var single *Val
		for _, te := range cc.List {
			if id, ok := te.(*ast.Ident); ok && id.Name == "nil" {
				conds = append(conds, fmt.Sprintf("(= %s 0)", sv.S))
				continue
			}
			t := vc.typeOf(te)
			v, ok := vc.typeAssert(cur, sv, t)
			conds = append(conds, ok)
			if len(cc.List) == 1 {
				single = &v
			}
		}
		cond := conds[0]
		if len(conds) > 1 {
			cond = "(or " + strings.Join(conds, " ") + ")"
		}
		cond = vc.define("tsw", "Bool", cond)
		bst := cur.clone()
		bst.pc = append(bst.pc, cond)
		cur.pc = append(cur.pc, "(not "+cond+")")
		if bind != nil {
			if o := vc.eng.info.Implicits[cc]; o != nil {
				if single != nil {
					bst.locals[o] = vc.define(o.Name(), single.Sort, single.S)
				} else {
					bst.locals[o] = sv.S
				}
			}
		}
		f := vc.execBlock(bst, cc.Body)
		outs = append(outs, f.normal)
		jumps = append(jumps, f.jumps...)
	}
	if defaultClause != nil {
		if bind != nil {
			if o := vc.eng.info.Implicits[defaultClause]; o != nil {
				cur.locals[o] = sv.S
			}
		}
		f := vc.execBlock(cur, defaultClause.Body)
		outs = append(outs, f.normal)
		jumps = append(jumps, f.jumps...)
	} else {
		outs = append(outs, cur)
	}
	var rest []jump
	for _, j := range jumps {
		if j.kind == flowBreak && j.label == "" {
			outs = append(outs, j.st)
		} else {
			rest = append(rest, j)
		}
	}
	return flow{normal: vc.mergeAll(outs), jumps: rest}
}

// ---------- returns ----------

func (vc *VC) execReturn(st *State, x *ast.ReturnStmt) {
	fr := vc.curFrame()
	sig := fr.fn.Sig
	n := sig.Results().Len()
	var vals []Val
	if len(x.Results) == 0 && n > 0 {
		// named results
		for i := 0; i < n; i++ {
			o := sig.Results().At(i)
			vals = append(vals, vc.mk(st.locals[o], vc.subst(o.Type())))
		}
	} else if len(x.Results) == 1 && n > 1 {
		vals = vc.evalMulti(st, x.Results[0], n)
	} else {
		for _, r := range x.Results {
			vals = append(vals, vc.eval(st, r))
		}
	}
	for i := range vals {
		if i < n {
			vals[i] = vc.convert(st, vals[i], vc.subst(sig.Results().At(i).Type()))
			vals[i].S = vc.define("ret", vals[i].Sort, vals[i].S)
		}
	}
	// assign named results (visible to deferred closures)
	for i := 0; i < n && i < len(vals); i++ {
		o := sig.Results().At(i)
		if o.Name() != "" && o.Name() != "_" {
			st.locals[o] = vals[i].S
		}
	}
	vc.finishReturn(st, vals, x.Pos())
}

func (vc *VC) finishReturn(st *State, vals []Val, pos token.Pos) {
	fr := vc.curFrame()
	// deferred calls, LIFO
	for i := len(fr.defers) - 1; i >= 0; i-- {
		vc.execDeferred(st, fr.defers[i])
	}
	// named results may have been changed by defers
	sig := fr.fn.Sig
	for i := 0; i < sig.Results().Len() && i < len(vals); i++ {
		o := sig.Results().At(i)
		if o.Name() != "" && o.Name() != "_" {
			if t, ok := st.locals[o]; ok {
				vals[i].S = t
			}
		}
	}
	if fr.inline {
		fr.rets = append(fr.rets, retRec{st: st, vals: vals})
		return
	}
	vc.retOrd++
	// reachability cover for this return site (vacuity guard): the path condition must not be refutable
	vc.covers = append(vc.covers, &Obligation{Name: fmt.Sprintf("%s/cover@ret%d", vc.fn.Key, vc.retOrd), Clause: vc.fn.Key + "/cover", Kind: "cover", Func: vc.fn.Key, Goal: "false", PC: append([]string(nil), st.pc...), Pos: vc.eng.pos(pos)})
	vc.checkPost(st, vals, pos, vc.retOrd)
}

func (vc *VC) execDeferred(st *State, d deferRec) {
	if lit, ok := d.call.Fun.(*ast.FuncLit); ok && len(d.call.Args) == 0 {
		// inline the closure body; its returns just end it
		vc.execClosureBody(st, lit)
		return
	}
	vc.evalCall(st, d.call)
}

func (vc *VC) execClosureBody(st *State, lit *ast.FuncLit) {
	sig := vc.typeOf(lit).(*types.Signature)
	fi := &FuncInfo{Key: vc.fn.Key + "#defer", Sig: sig, Body: lit.Body}
	fr := &frame{fn: fi, inline: true}
	vc.frames = append(vc.frames, fr)
	f := vc.execBlock(st.clone(), lit.Body.List)
	vc.frames = vc.frames[:len(vc.frames)-1]
	var sts []*State
	if f.normal != nil {
		sts = append(sts, f.normal)
	}
	for _, r := range fr.rets {
		sts = append(sts, r.st)
	}
	m := vc.mergeAll(sts)
	if m != nil {
		*st = *m
	}
}

// ---------- loops ----------

type loopInfo struct {
	wholeAssigned map[types.Object]bool          // locals assigned as a whole (not only through x[i] = ...)
	heapBases   map[string]map[types.Object]bool // heap key -> stable base variables written through
	heapUnknown map[string]bool                  // heap key written through something else
	ord      int
	label    string
	assigned map[types.Object]bool
	heapKeys map[string]bool
	allHeap  bool
	globals  map[types.Object]bool
	ghosts   map[string]bool
}

// syntactic scan of a loop for modified state
func (vc *VC) scanModified(nodes ...ast.Node) *loopInfo {
	li := &loopInfo{assigned: map[types.Object]bool{}, heapKeys: map[string]bool{}, globals: map[types.Object]bool{}, ghosts: map[string]bool{},
		heapBases: map[string]map[types.Object]bool{}, heapUnknown: map[string]bool{}, wholeAssigned: map[types.Object]bool{}}
	var markLhs func(e ast.Expr)
	viaIndex := 0
	markLhs = func(e ast.Expr) {
		switch l := e.(type) {
		case *ast.ParenExpr:
			markLhs(l.X)
		case *ast.Ident:
			if o, ok := vc.eng.info.ObjectOf(l).(*types.Var); ok {
				if o.Pkg() != nil && o.Parent() == o.Pkg().Scope() {
					li.globals[o] = true
				} else {
					li.assigned[o] = true
					if viaIndex == 0 {
						li.wholeAssigned[o] = true
					}
					if vc.needsBox(o) {
						li.allHeap = true
					}
				}
			}
		case *ast.SelectorExpr:
			sel := vc.eng.info.Selections[l]
			if sel == nil {
				return
			}
			// find the first pointer along the path: that decides the heap key; otherwise the base variable is assigned
			t := vc.typeOf(l.X)
			if pt, ok := t.Underlying().(*types.Pointer); ok {
				if n, s := namedStructOf(pt.Elem()); n != nil {
					key := vc.heapKey(n, s.Field(sel.Index()[0]).Name())
					li.heapKeys[key] = true
					vc.noteBase(li, key, l.X)
					return
				}
				li.allHeap = true
				return
			}
			markLhs(l.X)
		case *ast.IndexExpr:
			viaIndex++
			markLhs(l.X)
			viaIndex--
			if id, ok := l.X.(*ast.Ident); ok {
				if o, ok := vc.eng.info.ObjectOf(id).(*types.Var); ok {
					if src := vc.aliasOf[o]; src != nil {
						markLhs(src)
					}
				}
			}
		case *ast.SliceExpr:
			markLhs(l.X)
		case *ast.StarExpr:
			li.allHeap = true
		}
	}
	for _, n := range nodes {
		if n == nil {
			continue
		}
		ast.Inspect(n, func(nd ast.Node) bool {
			switch y := nd.(type) {
			case *ast.AssignStmt:
				for i, l := range y.Lhs {
					markLhs(l)
					if y.Tok == token.DEFINE {
						if id, ok := l.(*ast.Ident); ok {
							vc.trackAlias(id, y.Rhs, i)
						}
					}
				}
			case *ast.IncDecStmt:
				markLhs(y.X)
			case *ast.RangeStmt:
				if y.Tok == token.ASSIGN {
					if y.Key != nil {
						markLhs(y.Key)
					}
					if y.Value != nil {
						markLhs(y.Value)
					}
				}
			case *ast.CallExpr:
				vc.scanCallEffects(y, li)
			case *ast.UnaryExpr:
				if y.Op == token.AND {
					// &x passed somewhere: x may be written
					if id, ok := y.X.(*ast.Ident); ok {
						if o, ok := vc.eng.info.ObjectOf(id).(*types.Var); ok {
							li.assigned[o] = true
							li.wholeAssigned[o] = true
						}
					}
				}
			case *ast.FuncLit:
				return true
			}
			return true
		})
	}
	return li
}

func (vc *VC) execFor(st *State, x *ast.ForStmt, label string) flow {
	if x.Init != nil {
		f := vc.exec(st, x.Init)
		if f.normal == nil {
			return f
		}
		st = f.normal
	}
	ord := vc.nextLoopOrd()
	li := vc.scanModified(x.Body, x.Post, x.Cond)
	li.ord = ord
	li.label = label
	spec := vc.loopSpec(ord)
	vc.loopHead(st, li, spec, x.Pos(), nil)
	// guard
	var exits []*State
	bodySt := st.clone()
	if x.Cond != nil {
		c := vc.eval(bodySt, x.Cond)
		cond := vc.define("lc", "Bool", c.S)
		exitSt := bodySt.clone()
		exitSt.pc = append(exitSt.pc, "(not "+cond+")")
		exits = append(exits, exitSt)
		bodySt.pc = append(bodySt.pc, cond)
	}
	vc.loopStack = append(vc.loopStack, ord)
	f := vc.execBlock(bodySt, x.Body.List)
	var conts []*State
	if f.normal != nil {
		conts = append(conts, f.normal)
	}
	var outJumps []jump
	for _, j := range f.jumps {
		switch {
		case j.kind == flowBreak && (j.label == "" || j.label == label):
			exits = append(exits, j.st)
		case j.kind == flowContinue && (j.label == "" || j.label == label):
			conts = append(conts, j.st)
		default:
			outJumps = append(outJumps, j)
		}
	}
	for _, cs := range conts {
		if x.Post != nil {
			pf := vc.exec(cs, x.Post)
			cs = pf.normal
		}
		if cs != nil {
			vc.checkInvariants(cs, spec, ord, "preserve", x.Pos(), nil)
		}
	}
	vc.loopStack = vc.loopStack[:len(vc.loopStack)-1]
	return flow{normal: vc.mergeAll(exits), jumps: outJumps}
}

func (vc *VC) nextLoopOrd() int {
	fr := vc.curFrame()
	if fr.inline {
		// loops inside inlined callees get synthetic ordinals (no contract clauses)
		vc.loopOrd++
		return 10000 + vc.loopOrd
	}
	fr.loopBase++
	return fr.loopBase
}

func (vc *VC) loopSpec(ord int) *LoopSpec {
	if vc.curFrame().inline || vc.contract == nil {
		return nil
	}
	return vc.contract.Loops[ord]
}

type rangeCtx struct {
	keyObj types.Object
	keyVal string
	extra  map[string]Val // names visible to invariants (e.g. "seen")
}

// loopHead: assert invariants on entry, havoc modified state, assume invariants
func (vc *VC) loopHead(st *State, li *loopInfo, spec *LoopSpec, pos token.Pos, rc *rangeCtx) {
	vc.checkInvariantsWith(st, nil, spec, li.ord, "entry", pos, rc)
	// havoc
	for o := range li.assigned {
		if _, ok := st.locals[o]; !ok {
			continue // declared inside the loop
		}
		s := vc.sortOf(o.Type())
		before := st.locals[o]
		n := vc.fresh(o.Name(), s)
		st.locals[o] = n
		vc.assumeRange(st, Val{S: n, Ty: o.Type(), Sort: s})
		if _, isSlice := o.Type().Underlying().(*types.Slice); isSlice && !li.wholeAssigned[o] {
			// only element writes inside the loop: length and backing array identity are preserved
			vc.assume(st, fmt.Sprintf("(and (= (len_%s %s) (len_%s %s)) (= (org_%s %s) (org_%s %s)))", s, n, s, before, s, n, s, before))
		}
	}
	for o := range li.globals {
		s := vc.sortOf(o.Type())
		n := vc.fresh(o.Name(), s)
		st.globals[o] = n
		vc.assumeRange(st, Val{S: n, Ty: o.Type(), Sort: s})
	}
	if li.allHeap {
		vc.havocAllHeap(st)
		vc.havocAllGhosts(st)
	} else {
		for k := range li.heapKeys {
			es, ok := vc.heapSort[k]
			if !ok {
				continue
			}
			before := vc.heapGet(st, k, es)
			st.heap[k] = vc.fresh("H_"+k, "(Array Int "+es+")")
			// loop frame: when every write to this field inside the loop goes through variables the loop does not assign,
			// all other objects keep their field
			if !li.heapUnknown[k] {
				var conds []string
				stable := true
				for o := range li.heapBases[k] {
					if li.assigned[o] {
						stable = false
						break
					}
					t, ok := st.locals[o]
					if !ok {
						stable = false
						break
					}
					conds = append(conds, fmt.Sprintf("(not (= r %s))", t))
				}
				if stable {
					c := "true"
					if len(conds) > 0 {
						c = "(and " + strings.Join(conds, " ") + " true)"
					}
					lenBefore := len(st.pc)
					vc.assume(st, fmt.Sprintf("(forall ((r Int)) (! (=> %s (= (select %s r) (select %s r))) :pattern ((select %s r))))", c, st.heap[k], before, st.heap[k]))
					if len(st.pc) > lenBefore {
						vc.frameFacts[st.pc[len(st.pc)-1]] = []string{st.heap[k]}
					}
				}
			}
		}
		// (ghosts not yet mentioned on this path still denote their entry value: they must be havocked as well)
		for g := range li.ghosts {
			if _, declared := vc.eng.specs.Ghosts[g]; declared {
				before := vc.ghostGet(st, g)
				st.ghost[g] = vc.fresh("g_"+g, vc.eng.ghostSort(g))
				if vc.eng.ghostSort(g) == "Int" {
					vc.assume(st, fmt.Sprintf("(>= %s %s)", st.ghost[g], before))
				}
			}
		}
		slabWrite := false
		for k := range li.heapKeys {
			if i := strings.Index(k, "."); i > 0 && vc.eng.slabTypes[k[:i]] {
				slabWrite = true // only writes to slab objects are recorded in `touched` (see noteWrite)
			}
		}
		if slabWrite {
			// ghost write tracking is affected by heap writes
			for _, g := range []string{"touched"} {
				if _, declared := vc.eng.specs.Ghosts[g]; declared {
					st.ghost[g] = vc.fresh("g_"+g, vc.eng.ghostSort(g))
				}
			}
		}
	}
	if rc != nil && rc.keyObj != nil {
		// hidden counter
		st.locals[rc.keyObj] = rc.keyVal
	}
	// assume invariants
	if spec != nil {
		for _, inv := range spec.Invariants {
			t := vc.specBool(st, nil, inv.Expr, rc, nil)
			vc.assume(st, t)
		}
	}
	if !vc.curFrame().inline {
		vc.assumeLemmas(st)
	}
}

func (vc *VC) checkInvariants(st *State, spec *LoopSpec, ord int, phase string, pos token.Pos, rc *rangeCtx) {
	vc.checkInvariantsWith(st, nil, spec, ord, phase, pos, rc)
}

func (vc *VC) checkInvariantsWith(st *State, pre *State, spec *LoopSpec, ord int, phase string, pos token.Pos, rc *rangeCtx) {
	if spec == nil {
		return
	}
	for _, inv := range spec.Invariants {
		t := vc.specBool(st, pre, inv.Expr, rc, nil)
		clause := fmt.Sprintf("%s/loop%d/inv%d", vc.fn.Key, ord, inv.Ord)
		vc.emit(st, "invariant", clause, phase, t, pos, inv.Src)
	}
}

func (vc *VC) execRange(st *State, x *ast.RangeStmt, label string) flow {
	ord := vc.nextLoopOrd()
	xt := vc.typeOf(x.X)
	li := vc.scanModified(x.Body)
	li.ord = ord
	li.label = label
	spec := vc.loopSpec(ord)
	keyObj, valObj := vc.rangeVarObj(x.Key), vc.rangeVarObj(x.Value)
	switch u := xt.Underlying().(type) {
	case *types.Slice, *types.Array, *types.Basic, *types.Pointer:
		var lenTerm string
		var elemAt func(st *State, k string) Val
		switch uu := u.(type) {
		case *types.Slice:
			sv := vc.eval(st, x.X)
			sv.S = vc.define("rs", sv.Sort, sv.S)
			arr, ln, _ := vc.sliceParts(sv)
			lenTerm = ln
			elemAt = func(st *State, k string) Val {
				v := Val{S: fmt.Sprintf("(select %s %s)", arr, k), Ty: uu.Elem(), Sort: vc.sortOf(uu.Elem())}
				vc.assumeRange(st, v)
				return v
			}
			// if the loop body writes elements of the ranged slice, the live contents differ from the snapshot
			if vc.bodyWritesRanged(x) {
				elemAt = func(st *State, k string) Val {
					cur := vc.eval(st, x.X)
					a2, _, _ := vc.sliceParts(cur)
					v := Val{S: fmt.Sprintf("(select %s %s)", a2, k), Ty: uu.Elem(), Sort: vc.sortOf(uu.Elem())}
					vc.assumeRange(st, v)
					return v
				}
			}
		case *types.Array:
			av := vc.eval(st, x.X)
			lenTerm = fmt.Sprint(uu.Len())
			elemAt = func(st *State, k string) Val {
				if isByteArraySmall(uu) {
					return Val{S: vc.byteOfBE(av.S, k, uu.Len()), Ty: uu.Elem(), Sort: "Int"}
				}
				return Val{S: fmt.Sprintf("(select %s %s)", av.S, k), Ty: uu.Elem(), Sort: vc.sortOf(uu.Elem())}
			}
		case *types.Basic:
			if uu.Info()&types.IsInteger == 0 {
				vc.unsupportedf(x.Pos(), "range over %s", xt)
				return flow{normal: st}
			}
			nv := vc.eval(st, x.X)
			lenTerm = vc.define("rn", "Int", fmt.Sprintf("(ite (>= %s 0) %s 0)", nv.S, nv.S))
			elemAt = nil
		default:
			vc.unsupportedf(x.Pos(), "range over %s", xt)
			return flow{normal: st}
		}
		// hidden counter k
		k := vc.fresh("rk", "Int")
		rc := &rangeCtx{keyObj: keyObj, keyVal: k}
		if keyObj == nil {
			rc.keyObj = vc.hiddenRangeVar(x)
		}
		// entry: counter = 0
		entry := st.clone()
		entry.locals[rc.keyObj] = "0"
		vc.checkInvariantsWith(entry, nil, spec, ord, "entry", x.Pos(), rc)
		vc.loopHeadNoEntryCheck(st, li, spec, x.Pos(), rc)
		vc.assume(st, fmt.Sprintf("(and (<= 0 %s) (<= %s %s))", k, k, lenTerm))
		exitSt := st.clone()
		exitSt.pc = append(exitSt.pc, fmt.Sprintf("(= %s %s)", k, lenTerm))
		if x.Tok == token.ASSIGN && keyObj != nil {
			// Go leaves the last assigned index in an outer variable; not modelled precisely
			exitSt.locals[keyObj] = vc.fresh(keyObj.Name(), "Int")
		} else {
			delete(exitSt.locals, rc.keyObj)
		}
		exits := []*State{exitSt}
		bodySt := st
		bodySt.pc = append(bodySt.pc, fmt.Sprintf("(< %s %s)", k, lenTerm))
		if valObj != nil && elemAt != nil {
			ev := elemAt(bodySt, k)
			bodySt.locals[valObj] = vc.define(valObj.Name(), ev.Sort, ev.S)
		}
		vc.loopStack = append(vc.loopStack, ord)
		f := vc.execBlock(bodySt, x.Body.List)
		var conts []*State
		if f.normal != nil {
			conts = append(conts, f.normal)
		}
		var outJumps []jump
		for _, j := range f.jumps {
			switch {
			case j.kind == flowBreak && (j.label == "" || j.label == label):
				exits = append(exits, j.st)
			case j.kind == flowContinue && (j.label == "" || j.label == label):
				conts = append(conts, j.st)
			default:
				outJumps = append(outJumps, j)
			}
		}
		for _, cs := range conts {
			cs.locals[rc.keyObj] = vc.define("rk", "Int", fmt.Sprintf("(+ %s 1)", k))
			vc.checkInvariants(cs, spec, ord, "preserve", x.Pos(), rc)
		}
		vc.loopStack = vc.loopStack[:len(vc.loopStack)-1]
		return flow{normal: vc.mergeAll(exits), jumps: outJumps}
	case *types.Map:
		return vc.execRangeMap(st, x, u, li, spec, ord, label, keyObj, valObj)
	}
	vc.unsupportedf(x.Pos(), "range over %s", xt)
	return flow{normal: st}
}

func (vc *VC) bodyWritesRanged(x *ast.RangeStmt) bool {
	target := exprString(x.X)
	found := false
	ast.Inspect(x.Body, func(n ast.Node) bool {
		if as, ok := n.(*ast.AssignStmt); ok {
			for _, l := range as.Lhs {
				if ie, ok := l.(*ast.IndexExpr); ok && exprString(ie.X) == target {
					found = true
				}
			}
		}
		return true
	})
	return found
}

func exprString(e ast.Expr) string {
	switch x := e.(type) {
	case *ast.Ident:
		return x.Name
	case *ast.SelectorExpr:
		return exprString(x.X) + "." + x.Sel.Name
	case *ast.ParenExpr:
		return exprString(x.X)
	case *ast.IndexExpr:
		return exprString(x.X) + "[" + exprString(x.Index) + "]"
	case *ast.BasicLit:
		return x.Value
	case *ast.StarExpr:
		return "*" + exprString(x.X)
	case *ast.CallExpr:
		s := exprString(x.Fun) + "("
		for i, a := range x.Args {
			if i > 0 {
				s += ","
			}
			s += exprString(a)
		}
		return s + ")"
	case *ast.BinaryExpr:
		return exprString(x.X) + x.Op.String() + exprString(x.Y)
	case *ast.UnaryExpr:
		return x.Op.String() + exprString(x.X)
	case *ast.SliceExpr:
		s := exprString(x.X) + "["
		if x.Low != nil {
			s += exprString(x.Low)
		}
		s += ":"
		if x.High != nil {
			s += exprString(x.High)
		}
		return s + "]"
	}
	return fmt.Sprintf("%T", e)
}

func (vc *VC) rangeVarObj(e ast.Expr) types.Object {
	if e == nil {
		return nil
	}
	id, ok := e.(*ast.Ident)
	if !ok || id.Name == "_" {
		return nil
	}
	return vc.eng.info.ObjectOf(id)
}

// a synthetic object standing for the hidden iteration counter of `for range x` / `for _, e := range x`
func (vc *VC) hiddenRangeVar(x *ast.RangeStmt) types.Object {
	if o, ok := vc.hiddenVars[x]; ok {
		return o
	}
	o := types.NewVar(x.Pos(), vc.eng.pkg.Types, "i", types.Typ[types.Int])
	vc.hiddenVars[x] = o
	return o
}

func (vc *VC) loopHeadNoEntryCheck(st *State, li *loopInfo, spec *LoopSpec, pos token.Pos, rc *rangeCtx) {
	vc.loopHead(st, li, nil, pos, rc)
	if spec != nil {
		for _, inv := range spec.Invariants {
			t := vc.specBool(st, nil, inv.Expr, rc, nil)
			vc.assume(st, t)
		}
	}
}

func (vc *VC) execRangeMap(st *State, x *ast.RangeStmt, mt *types.Map, li *loopInfo, spec *LoopSpec, ord int, label string, keyObj, valObj types.Object) flow {
	mv := vc.eval(st, x.X)
	mv.S = vc.define("rm", mv.Sort, mv.S)
	ks := vc.sortOf(mt.Key())
	ms := mv.Sort
	seenSort := "(Array " + ks + " Bool)"
	// the loop body must not modify the ranged map (checked syntactically)
	if vc.bodyWritesRanged(x) {
		vc.unsupportedf(x.Pos(), "range over a map that the loop body writes")
	}
	emptySeen := fmt.Sprintf("((as const %s) false)", seenSort)
	rc := &rangeCtx{extra: map[string]Val{}}
	entry := st.clone()
	rc.extra["seen"] = Val{S: emptySeen, Sort: seenSort}
	vc.checkInvariantsWith(entry, nil, spec, ord, "entry", x.Pos(), rc)
	seen := vc.fresh("seen", seenSort)
	rc.extra["seen"] = Val{S: seen, Sort: seenSort}
	vc.loopHeadNoEntryCheck(st, li, spec, x.Pos(), rc)
	// seen subset of dom
	vc.assume(st, fmt.Sprintf("(forall ((k %s)) (! (=> (select %s k) (select (dom_%s %s) k)) :pattern ((select %s k))))", ks, seen, ms, mv.S, seen))
	exitSt := st.clone()
	exitSt.pc = append(exitSt.pc, fmt.Sprintf("(forall ((k %s)) (! (=> (select (dom_%s %s) k) (select %s k)) :pattern ((select %s k)) :pattern ((select (dom_%s %s) k))))", ks, ms, mv.S, seen, seen, ms, mv.S))
	exits := []*State{exitSt}
	bodySt := st
	k := vc.fresh("mk", ks)
	vc.assume(bodySt, fmt.Sprintf("(and (select (dom_%s %s) %s) (not (select %s %s)))", ms, mv.S, k, seen, k))
	kv := Val{S: k, Ty: mt.Key(), Sort: ks}
	vc.assumeRange(bodySt, kv)
	if keyObj != nil {
		bodySt.locals[keyObj] = k
	}
	if valObj != nil {
		ev := Val{S: fmt.Sprintf("(select (val_%s %s) %s)", ms, mv.S, k), Ty: mt.Elem(), Sort: vc.sortOf(mt.Elem())}
		vc.assumeRange(bodySt, ev)
		bodySt.locals[valObj] = vc.define(valObj.Name(), ev.Sort, ev.S)
	}
	vc.loopStack = append(vc.loopStack, ord)
	f := vc.execBlock(bodySt, x.Body.List)
	var conts []*State
	if f.normal != nil {
		conts = append(conts, f.normal)
	}
	var outJumps []jump
	for _, j := range f.jumps {
		switch {
		case j.kind == flowBreak && (j.label == "" || j.label == label):
			exits = append(exits, j.st)
		case j.kind == flowContinue && (j.label == "" || j.label == label):
			conts = append(conts, j.st)
		default:
			outJumps = append(outJumps, j)
		}
	}
	seen2 := fmt.Sprintf("(store %s %s true)", seen, k)
	for _, cs := range conts {
		rc2 := &rangeCtx{extra: map[string]Val{"seen": {S: seen2, Sort: seenSort}}}
		vc.checkInvariants(cs, spec, ord, "preserve", x.Pos(), rc2)
	}
	vc.loopStack = vc.loopStack[:len(vc.loopStack)-1]
	return flow{normal: vc.mergeAll(exits), jumps: outJumps}
}

// scanCallEffects: which state may a call (inside a loop) modify?
func (vc *VC) scanCallEffects(c *ast.CallExpr, li *loopInfo) {
	if tv, ok := vc.eng.info.Types[c.Fun]; ok && tv.IsType() {
		return
	}
	fun := c.Fun
	if p, ok := fun.(*ast.ParenExpr); ok {
		fun = p.X
	}
	if ix, ok := fun.(*ast.IndexExpr); ok {
		fun = ix.X
	}
	var callee *types.Func
	var ifaceT types.Type
	switch f := fun.(type) {
	case *ast.Ident:
		switch o := vc.eng.info.ObjectOf(f).(type) {
		case *types.Builtin:
			if o.Name() == "delete" || o.Name() == "clear" || o.Name() == "copy" {
				// first argument is written
				vc.markWritten(c.Args[0], li)
			}
			return
		case *types.Func:
			callee = o
		default:
			vc.funcValueEffects(vc.typeOf(f), li)
			return
		}
	case *ast.SelectorExpr:
		if id, ok := f.X.(*ast.Ident); ok {
			if _, isPkg := vc.eng.info.ObjectOf(id).(*types.PkgName); isPkg {
				if o, ok := vc.eng.info.ObjectOf(f.Sel).(*types.Func); ok {
					callee = o
				} else {
					li.allHeap = true
					return
				}
			}
		}
		if callee == nil {
			sel := vc.eng.info.Selections[f]
			if sel == nil {
				li.allHeap = true
				return
			}
			if sel.Kind() == types.FieldVal {
				vc.funcValueEffects(vc.typeOf(f), li)
				return
			}
			callee = sel.Obj().(*types.Func)
			if rt := vc.typeOf(f.X); types.IsInterface(rt) {
				ifaceT = rt
			} else if r := callee.Type().(*types.Signature).Recv(); r != nil && types.IsInterface(r.Type()) {
				// method promoted from an embedded interface field (e.g. Encoder.Write via io.Writer)
				ifaceT = r.Type()
			}
		}
	default:
		li.allHeap = true
		return
	}
	if og := callee.Origin(); og != nil {
		callee = og
	}
	if ifaceT != nil {
		if ct := vc.eng.ifaceContract(ifaceT, callee); ct != nil {
			vc.contractEffects(ct, li)
			return
		}
		if impls := vc.eng.closedImplementers(ifaceT); impls != nil && len(impls) <= 6 {
			for _, it := range impls {
				ms := types.NewMethodSet(it)
				if s := ms.Lookup(callee.Pkg(), callee.Name()); s != nil {
					vc.calleeEffects(s.Obj().(*types.Func), li, 0)
				}
			}
			return
		}
		li.allHeap = true
		return
	}
	vc.calleeEffects(callee, li, 0)
}

func (vc *VC) funcValueEffects(t types.Type, li *loopInfo) {
	if n, ok := types.Unalias(t).(*types.Named); ok {
		if ct := vc.eng.specs.Contracts[n.Obj().Name()]; ct != nil && ct.Kind == "functype" {
			vc.contractEffects(ct, li)
			return
		}
	}
	li.allHeap = true
}

func (vc *VC) markWritten(e ast.Expr, li *loopInfo) {
	switch l := e.(type) {
	case *ast.ParenExpr:
		vc.markWritten(l.X, li)
	case *ast.Ident:
		if o, ok := vc.eng.info.ObjectOf(l).(*types.Var); ok {
			if o.Pkg() != nil && o.Parent() == o.Pkg().Scope() {
				li.globals[o] = true
			} else {
				li.assigned[o] = true
				li.wholeAssigned[o] = true
			}
		}
	case *ast.SelectorExpr:
		sel := vc.eng.info.Selections[l]
		if sel == nil {
			return
		}
		t := vc.typeOf(l.X)
		if pt, ok := t.Underlying().(*types.Pointer); ok {
			if n, s := namedStructOf(pt.Elem()); n != nil {
				key := vc.heapKey(n, s.Field(sel.Index()[0]).Name())
				li.heapKeys[key] = true
				vc.noteBase(li, key, l.X)
				return
			}
			li.allHeap = true
			return
		}
		vc.markWritten(l.X, li)
	case *ast.IndexExpr:
		vc.markWritten(l.X, li)
	case *ast.SliceExpr:
		vc.markWritten(l.X, li)
	default:
		li.allHeap = true
	}
}

func (vc *VC) contractEffects(ct *Contract, li *loopInfo) {
	if ct.Pure || (ct.HasModif && len(ct.Modifies) == 0) {
		return
	}
	if !ct.HasModif {
		li.allHeap = true
		return
	}
	for _, m := range ct.Modifies {
		m = strings.TrimSpace(m)
		switch {
		case m == "heap":
			li.allHeap = true
		case strings.HasPrefix(m, "*"):
			// pointee of a non-struct pointer: all generic pointee heaps (the element sort is not known here)
			for k := range vc.heapSort {
				if strings.HasPrefix(k, "ptr:") {
					li.heapKeys[k] = true
					li.heapUnknown[k] = true
				}
			}
		case m == "alloc":
		case strings.HasPrefix(m, "ghost."):
			li.ghosts[m[6:]] = true
		case strings.HasPrefix(m, "global."):
			if o, ok := vc.eng.pkg.Types.Scope().Lookup(m[7:]).(*types.Var); ok {
				li.globals[o] = true
			}
		default:
			if at := strings.Index(m, "@"); at >= 0 {
				m = m[:at]
			}
			k := strings.LastIndex(m, ".")
			if k < 0 {
				li.allHeap = true
				continue
			}
			base, field := m[:k], m[k+1:]
			if tn, ok := vc.eng.pkg.Types.Scope().Lookup(base).(*types.TypeName); ok {
				if n, s := namedStructOf(tn.Type()); n != nil {
					for i := 0; i < s.NumFields(); i++ {
						if field == "*" || field == s.Field(i).Name() {
							li.heapKeys[vc.heapKey(n, s.Field(i).Name())] = true
							li.heapUnknown[vc.heapKey(n, s.Field(i).Name())] = true
							vc.heapSortEnsure(n, s.Field(i))
						}
					}
					continue
				}
			}
			// object location: we do not know the static type here without evaluating; find a struct with that field among
			// the contract's receiver / parameter types is complex: be conservative by field name over all in-package structs
			found := false
			for _, nt := range vc.eng.namedTypes {
				if n, s := namedStructOf(nt); n != nil {
					for i := 0; i < s.NumFields(); i++ {
						if field == "*" || s.Field(i).Name() == field {
							li.heapKeys[vc.heapKey(n, s.Field(i).Name())] = true
							li.heapUnknown[vc.heapKey(n, s.Field(i).Name())] = true
							vc.heapSortEnsure(n, s.Field(i))
							found = true
						}
					}
				}
			}
			if !found {
				li.allHeap = true
			}
		}
	}
}

func (vc *VC) heapSortEnsure(n *types.Named, f *types.Var) {
	key := vc.heapKey(n, f.Name())
	if _, ok := vc.heapSort[key]; !ok {
		vc.heapSort[key] = vc.sortOf(f.Type())
	}
}

func (vc *VC) calleeEffects(o *types.Func, li *loopInfo, depth int) {
	if o.Pkg() != vc.eng.pkg.Types {
		if ct := vc.eng.specs.Contracts[externKey(o)]; ct != nil {
			vc.contractEffects(ct, li)
			return
		}
		if vc.eng.pureExternal(o) {
			return
		}
		li.allHeap = true
		return
	}
	key := funcKey(o)
	if ct := vc.eng.specs.Contracts[key]; ct != nil && (ct.Kind == "func" || ct.Kind == "extern") {
		vc.contractEffects(ct, li)
		return
	}
	fi := vc.eng.funcs[key]
	if fi == nil || depth > 3 || !vc.canInline(fi) {
		li.allHeap = true
		return
	}
	sub := vc.scanModified(fi.Body)
	if sub.allHeap {
		li.allHeap = true
	}
	for k := range sub.heapKeys {
		li.heapKeys[k] = true
		li.heapUnknown[k] = true
	}
	for g := range sub.globals {
		li.globals[g] = true
	}
	for g := range sub.ghosts {
		li.ghosts[g] = true
	}
}


// noteBase records through which base expression a heap field is written inside a loop
func (vc *VC) noteBase(li *loopInfo, key string, base ast.Expr) {
	for {
		if p, ok := base.(*ast.ParenExpr); ok {
			base = p.X
			continue
		}
		break
	}
	if id, ok := base.(*ast.Ident); ok {
		if o, ok := vc.eng.info.ObjectOf(id).(*types.Var); ok && (o.Pkg() == nil || o.Parent() != o.Pkg().Scope()) {
			if li.heapBases[key] == nil {
				li.heapBases[key] = map[types.Object]bool{}
			}
			li.heapBases[key][o] = true
			return
		}
	}
	li.heapUnknown[key] = true
}


// concurrency: called at constructs outside the sequential subset. With the cut option the current path is abandoned.
func (vc *VC) concurrency(pos token.Pos, what string) {
	if vc.contract != nil && vc.contract.Options["stop-at-concurrency"] != "" {
		if vc.cutState != nil && !vc.cutAsserted {
			vc.cutAsserted = true
			for _, cl := range vc.contract.AtCuts {
				g := vc.specBool(vc.cutState, nil, cl.Expr, nil, nil)
				vc.emit(vc.cutState, "assert", fmt.Sprintf("%s/atcut%d", vc.fn.Key, cl.Ord), "cut", g, pos, cl.Src)
			}
		}
		vc.noteAssumption(fmt.Sprintf("CUT in %s: paths that reach goroutines/channels (first at %s) are not verified", vc.fn.Key, vc.eng.pos(pos)))
		vc.abandonPath = true
		return
	}
	vc.unsupportedf(pos, "concurrency construct: %s", what)
}
