#!/bin/sh
cd "$(dirname "$0")"
. ./env.sh
exec bin/govc replay "$1"
