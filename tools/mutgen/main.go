// mutgen: enumerates first-order mutants of one Go source file as text edits (operators, constants, negated conditions, deleted
// statements) and writes a chosen one. Used by tools/mutation_run.py to measure which claimed clauses notice which code changes.
//
//	mutgen -file f.go -list            JSON list {id, func, line, op, text}
//	mutgen -file f.go -id N -o out.go  write the N-th mutant
package main

import (
	"encoding/json"
	"flag"
	"fmt"
	"go/ast"
	"go/parser"
	"go/token"
	"os"
	"strconv"
)

type mut struct {
	ID    int    `json:"id"`
	Func  string `json:"func"`
	Line  int    `json:"line"`
	Op    string `json:"op"`
	Text  string `json:"text"`
	start int
	end   int
	repl  string
}

var swap = map[token.Token]string{
	token.LSS: "<=", token.LEQ: "<", token.GTR: ">=", token.GEQ: ">", token.EQL: "!=", token.NEQ: "==",
	token.ADD: "-", token.SUB: "+", token.LAND: "||", token.LOR: "&&",
	token.ADD_ASSIGN: "-=", token.SUB_ASSIGN: "+=", token.INC: "--", token.DEC: "++",
}

func isNil(e ast.Expr) bool { id, ok := e.(*ast.Ident); return ok && id.Name == "nil" }

func main() {
	file := flag.String("file", "", "source file")
	list := flag.Bool("list", false, "list mutants")
	id := flag.Int("id", -1, "mutant to write")
	out := flag.String("o", "", "output file")
	flag.Parse()
	src, err := os.ReadFile(*file)
	if err != nil {
		panic(err)
	}
	fset := token.NewFileSet()
	f, err := parser.ParseFile(fset, *file, src, parser.ParseComments)
	if err != nil {
		panic(err)
	}
	var muts []*mut
	off := func(p token.Pos) int { return fset.Position(p).Offset }
	for _, d := range f.Decls {
		fd, ok := d.(*ast.FuncDecl)
		if !ok || fd.Body == nil {
			continue
		}
		name := fd.Name.Name
		if fd.Recv != nil && len(fd.Recv.List) == 1 {
			t := fd.Recv.List[0].Type
			if s, ok := t.(*ast.StarExpr); ok {
				t = s.X
			}
			if ix, ok := t.(*ast.IndexExpr); ok {
				t = ix.X
			}
			if idn, ok := t.(*ast.Ident); ok {
				name = idn.Name + "." + name
			}
		}
		add := func(p token.Pos, s, e int, repl, op string) {
			muts = append(muts, &mut{Func: name, Line: fset.Position(p).Line, Op: op, Text: string(src[s:e]) + " => " + repl, start: s, end: e, repl: repl})
		}
		ast.Inspect(fd.Body, func(n ast.Node) bool {
			switch x := n.(type) {
			case *ast.BinaryExpr:
				if r, ok := swap[x.Op]; ok {
					if (x.Op == token.EQL || x.Op == token.NEQ) && (isNil(x.X) || isNil(x.Y)) {
						return true
					}
					s := off(x.OpPos)
					add(x.OpPos, s, s+len(x.Op.String()), r, "binop")
				}
			case *ast.IfStmt:
				if be, ok := x.Cond.(*ast.BinaryExpr); ok && (isNil(be.X) || isNil(be.Y)) {
					return true
				}
				s, e := off(x.Cond.Pos()), off(x.Cond.End())
				add(x.Cond.Pos(), s, e, "!("+string(src[s:e])+")", "negate-if")
			case *ast.BasicLit:
				if x.Kind == token.INT {
					if v, err := strconv.ParseInt(x.Value, 0, 64); err == nil && v < 1<<31 {
						s, e := off(x.Pos()), off(x.End())
						add(x.Pos(), s, e, strconv.FormatInt(v+1, 10), "const+1")
					}
				}
			case *ast.IncDecStmt:
				s := off(x.TokPos)
				add(x.TokPos, s, s+2, swap[x.Tok], "incdec")
				add(x.Pos(), off(x.Pos()), off(x.End()), "", "delete-stmt")
			case *ast.AssignStmt:
				if r, ok := swap[x.Tok]; ok {
					s := off(x.TokPos)
					add(x.TokPos, s, s+2, r, "assignop")
				}
				if x.Tok != token.DEFINE {
					add(x.Pos(), off(x.Pos()), off(x.End()), "", "delete-stmt")
				}
			case *ast.ExprStmt:
				if _, ok := x.X.(*ast.CallExpr); ok {
					add(x.Pos(), off(x.Pos()), off(x.End()), "", "delete-stmt")
				}
			case *ast.BranchStmt:
				if x.Tok == token.CONTINUE && x.Label == nil {
					add(x.Pos(), off(x.Pos()), off(x.End()), "break", "continue->break")
				}
			}
			return true
		})
	}
	for i, m := range muts {
		m.ID = i
	}
	if *list {
		b, _ := json.Marshal(muts)
		os.Stdout.Write(b)
		return
	}
	if *id < 0 || *id >= len(muts) {
		fmt.Fprintln(os.Stderr, "no such mutant")
		os.Exit(2)
	}
	m := muts[*id]
	res := string(src[:m.start]) + m.repl + string(src[m.end:])
	if err := os.WriteFile(*out, []byte(res), 0o644); err != nil {
		panic(err)
	}
}
