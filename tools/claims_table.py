# -*- python -*-  (exec'd by gen_manifest.py)
not_applicable = {
 "C16": "data-race freedom and schedule independence quantify over goroutine interleavings; sequential function contracts (pre/post/invariant) cannot express or decide them, and no concurrent program logic for Go is available in this sandbox (DESIGN.md section 9, C16)",
}

A_TREE = ("Composition to whole trees is by the assumed tree invariant one level down (childrenReady / rootReady / frame assumption F, listed per run); "
          "the induction over tree height is not machine-checked. ")

add("C01",
    "Unbounded per-function proofs: leaf sequence operations of ArrayDataSlab (Get/Set/Insert/Remove/Split/Merge/LendToRight/BorrowFromRight) are exact on contents, order, count; "
    "index routing (childSlabIndexInfo, linear and binary search, with an induction lemma on cumulative counts); parent bookkeeping of ArrayMetaDataSlab "
    "(SplitChildSlab, rebalanceChildren, mergeChildren, MergeOrRebalanceChildSlab, Set/Insert/Remove: cumulative counts, header refresh, child headers agree with stored children); "
    "root split / promotion keep the root identifier and the element count; every mutator ends with the touched slabs stored.",
    A_TREE + "ArrayMetaDataSlab.LendToRight/BorrowFromRight are verified bodies now (telescoping invariant over the cumulative counts). Element sizes are stable during one slab operation (A4). The notification fails only when the updater itself fails (ghost counter updFail).",
    "DESIGN.md Status, 9/C01")
add("C02",
    "Per-function proofs on the map side: hkeyElements.getElement/Set/Remove/Merge (strictly ascending digests, exact insert/update/delete positions, size bookkeeping on insertion paths), "
    "MapMetaDataSlab routing by first key (getChildSlabByDigest) and parent bookkeeping (SplitChildSlab, rebalanceChildren, mergeChildren, MergeOrRebalanceChildSlab, Set, Remove), "
    "index-slab Split/Merge/LendToRight/BorrowFromRight; the map leaf MapDataSlab.Split/Merge/LendToRight/BorrowFromRight/Set/Remove and hkeyElements.Split/LendToRight/BorrowFromRight as verified bodies (contents and order preserved, digests stay ascending across the two lists, header first key = smallest digest); "
    "collision groups: singleElement.Get/Set/Remove, inlineCollisionGroup.Get/Set/Remove, externalCollisionGroup.Set/Remove; OrderedMap.set/remove: notification, element count +1 exactly on insertion / -1 on removal (asserted before the parent notification), root split and promotion (OrderedMap.splitRoot, promoteChildAsNewRoot); OrderedMap.notifyParentIfNeeded fails only when the updater fails.",
    A_TREE + "Element-level Get/Set/Remove are called through interface contracts; their implementers are checked against those contracts by conformance views, of which only part discharges (listed in evidence per implementer); key equality and digests are uninterpreted functions of their arguments (A5). OrderedMap.get is an abstraction (trusted). Dictionary semantics across the whole tree is composition.",
    "DESIGN.md Status, 9/C02")
add("C03",
    "Ledger frame: no function of PersistentSlabStorage other than commit/FastCommit/NondeterministicFastCommit changes the ledger ghost (sameLedger post-conditions); commit post-condition and loop invariant (processed prefix written, rest untouched, temp-address ids never passed to the ledger); "
    "dirty protocol: every array/map slab mutator that writes a standalone slab ends with that slab stored (has(stored, x) clauses).",
    "BaseStorage register operations are atomic maps (A3, assumed iface contracts); encoder goroutines are cut (A7); dec(enc(s)) = s (A8). Reconstruction by a fresh storage is the lemma view_fresh = dec∘ledger, not re-proved here.",
    "DESIGN.md Status, 9/C03")
add("C04",
    "sortedOwnedDeltaKeys returns exactly the owned pending ids, each once, strictly ascending in (owner, index); its comparator closure is proved to be that order; FastCommit's apply loop issues register operations in that order (ghost write log); "
    "every range-over-map loop under contract is proved for an arbitrary iteration order; digests depend only on key bytes and seed: basicDigester.Reset/putDigester return clean digesters, builder and Digest(level) contracts.",
    "sort.Slice modelled as a permutation ordered by the proved relation; sync.Pool invariant trusted (getBasicDigester); independence from goroutine schedule and process is not decided (cuts).",
    "DESIGN.md Status, 9/C04")
add("C05",
    "Unbounded proof, per function, for a symbolic slab size t in [256,32768] and arbitrary element sizes/counts: setThreshold establishes the threshold invariant; data-slab and index-slab Split/LendToRight/BorrowFromRight/Merge/CanLend* of arrays and map index slabs keep sizes inside [min,max], siblings non-empty, header.size = prefix + sum; "
    "parents keep every child header in band after Set/Insert/Remove (array and map index slabs); splitRoot yields exactly two in-band children.",
    A_TREE + "A4 (element ByteSize >= 1). The map leaf is verified too (hkeyElements.Split/LendToRight/BorrowFromRight/CanLendToLeft/CanLendToRight with witness-carrying post-conditions, MapDataSlab on top): both leaves in band for every slab size, the error branch 'fewer than two elements' of MapDataSlab.Split proved unreachable (2-element guarantee); an over-full root is split before OrderedMap.set/remove report to the parent; first-level elements stay within the per-element limit (spill rule of inlineCollisionGroup.Set proved: spilled exactly when at the first level and over the limit).",
    "DESIGN.md Status, 9/C05")
add("C06",
    "header.size = prefix + sum of element sizes is a post-condition of every array data-slab operation and of every map leaf / element-list operation (hkeyElements.Set/Remove/Merge/Split/LendToRight/BorrowFromRight with a heap-defined element measure); index-slab sizes = prefix + n*headerSize; prefix swaps at root split/promotion and inline/uninline are exact; ghost byte counter: the index-slab encoders, the array and map leaf encoders, element lists, elements, groups and references write exactly the reported number of bytes (minus the documented 16-byte saving); the V1 index-slab decoders recompute the same formula; the extra-data table keeps one entry per inlined map.",
    "Bytes written by the CBOR stream encoder are counted by assumed contracts of the library calls; extra-data sections are counted separately (xbytes, by definition); caller storables write ByteSize() bytes (assumed interface contract, not satisfied by conformance for atree's own slabs whose size changes in place - listed). Nested groups below the first level have no size bound (uint32 arithmetic there is assumed in range, finding (v) in DESIGN).",
    "DESIGN.md Status, 9/C06")
add("C08",
    "Storage layer: Retrieve / RetrieveIgnoringDeltas / RetrieveIfLoaded return the overlay view whichever layer serves; they change only the cache and never the view; cache coherence (invCoh) is preserved by every storage operation including DropCache and the sequential BatchPreload; the V1 index-slab decoder returns a normal-form slab.",
    "A8 dec(enc(s)) = s; container-level schedule quantification (commit/evict/reopen between container operations) is composition, not decided.",
    "DESIGN.md Status, 9/C08")
add("C09",
    "Identifiers handed out by the storage are pairwise distinct, also those not stored yet (ghost set issued): Array.splitRoot / OrderedMap.splitRoot end with two distinct children that agree with the stored slabs; a reference to an external collision group is never copied (the copy would own the slab twice); externalCollisionGroup.Remove removes the group's slab exactly when the group collapses; per-function reference/liveness balance: Split/splitRoot store exactly the new ids; mergeChildren/promoteChildAsNewRoot/Inline remove exactly the id that stops being referenced; children ids stay pairwise distinct and agree with stored slabs (metaLinked / mLinked); storage-frame post-conditions (other ids untouched); child-reference enumeration complete for data and index slabs.",
    A_TREE + "Global 'storage = reachable set' is composition.",
    "DESIGN.md Status, 9/C09")
add("C10",
    "Notification sweep (ghost counter): Array.set/Insert/remove/SetType/PopIterate and OrderedMap.set/remove/PopIterate end every successful path with the parent notification; Array/OrderedMap.Storable inline exactly when the root is a data slab whose inlined size fits, return the slab itself iff inlined, keep the slab id (hence the value id), with exact prefix swap; Inline/Uninline of both data slabs; child-index maintenance under insert/remove for any map iteration order. "
    "One genuine defect found by this check and repaired in /repo (fix: 47c9461, PopIterate did not notify).",
    "The parent updater itself is a function value (its effect is havoc of the heap, A2/F); depth >= 3 is covered only through the recursive use of the same contracts. The inline limit handed to the child callback is asserted to be the value limit of the key the child sits under (OrderedMap.set / Get / getElementAndNextKey).",
    "DESIGN.md Status, 9/C10, KNOWN_FINDINGS")
add("C12",
    "Collision groups as verified bodies: singleElement.Set updates an equal key in place and otherwise builds a group one level deeper in which the resident element sits under the digest of ITS key at that level (asserted at the hand-over), or a plain list at the last level; inlineCollisionGroup.Set spills exactly when the group sits at the first level and exceeds the per-element limit, into a stored, unlimited-size, collision-group slab of the map's address holding the same list, leaving a fixed-size reference; inlineCollisionGroup.Remove / externalCollisionGroup.Remove collapse a group with one plain element left to that element (and remove the slab). hkeyElements.Set at level 0: a new key whose digest group already holds more than the (symbolic) limit of entries is refused with a collision-limit error and the element list and storage view are unchanged; any error leaves the list's own fields unchanged; strictly ascending digests preserved by Set/Remove.",
    "Digests are uninterpreted per (key, level) (A5, ghost dig/dgKey); the element-level dictionary view (ehas/gerr) used by the limit clause is an interface-level abstraction whose conformance views discharge only in part (listed).",
    "DESIGN.md Status, 9/C12")
add("C13",
    "Per-step proofs for every array and map iterator flavour that is one function deep: range validation (RangeIterator / ReadOnlyRangeIteratorWithMutationCallback reject out-of-range and inverted bounds as user errors, "
    "an empty range gives the empty iterator, otherwise the cursor covers exactly [start, end)); the mutable array cursor advances by exactly one per yielded element, stops exactly at the end, stays put on error and never "
    "stops silently past the end (Array.Get rejects positions >= count); the read-only array cursor yields elements[k] of the current leaf, moves through the sibling link only when the leaf is exhausted and never yields more "
    "than remainingCount; leaf descent by index returns the leaf/offset addressing flattened position i (ghost flat, defined by unfolding); map next-key hand-off: within a digest-sorted element list the successor of position j "
    "is the successor inside element j if any, else the first key of element j+1, else none (hkeyElements), next list entry (singleElements), first key of the next child (MapMetaDataSlab, routed by first keys); "
    "first-key descent (firstKeyInElement(s)/firstKeyInMapSlab/firstMapDataSlab) equals the ghost first key; mapElementIterator.next yields plain elements in list order and reports the end only at the end; readOnlyMapIterator.advance follows the sibling link.",
    A_TREE + "Whole-enumeration statements (every element exactly once over a full traversal) are the composition of these steps over the assumed tree invariant and are not machine-checked; loaded-value iterators, "
    "PopIterate order and mutation-during-iteration across slab splits are not covered; OrderedMap.getNextKey is a trusted composition; the ghost functions flat/fkE/fkEs/fkS/nkIn are defined by assumed unfoldings; "
    "collision groups are assumed non-empty; nested cursors assumed acyclic.",
    "DESIGN.md Status, 9/C13")
add("C07",
    "Byte-level round trip of the two index-slab codecs (non-root registers): the encoders are proved to write head, address, child count and one big-endian record per child (ghost byte content of the writer), the V1 decoders are proved to read exactly those fields, and the lemmas amdsRoundTrip / amdsRoundTripCounts / mmdsRoundTrip show that decoding what was encoded gives the same child headers, cumulative counts and own header (given child sizes and count fit 16 bits and children carry the slab's address). Header flags: every helper of flag.go is proved against a bit-level contract (version nibble, root / holds-references / any-size / has-next / has-inlined bits, slab kind in the low five bits; setters change exactly their bit); "
    "the head written first by each slab encoder (ArrayDataSlab, MapDataSlab, ArrayMetaDataSlab, MapMetaDataSlab, StorableSlab .Encode) is proved truthful at the point it is written: version 1, kind matches the slab type "
    "(collision-group leaves included), root bit = has extra data, holds-references bit = some element / key / value is or contains a reference (hasPointer family proved down to single elements, element lists and groups), "
    "any-size bit and next-slab bit from the slab's fields; the compact-map decoder gives every decoded map a private copy of the shared digests and fresh elements (content view).",
    "For data slabs, element payloads and root registers (extra-data section) the byte-level round trip is NOT decided (the CBOR stream encoder / decoder are external); DecodeSlab / EncodeSlab dispatch is not part of the lemma; "
    "ArrayDataSlab.HasPointer is a trusted contract (slices.ContainsFunc); the has-inlined-slabs bit is not asserted; index slabs never set the holds-references bit (asserted as is).",
    "DESIGN.md Status, 9/C07")
add("C17",
    "Copy: Array.CopyNonRefSimple / OrderedMap.CopyNonRefSimple and everything below them (copyWithNewSlabID, hkeyElements / singleElements / singleElement .copyNonRefSimple and canCopyNonRefSimple): the copy is offered exactly when the root is a leaf "
    "without sibling whose elements all answer CanCopyNonRefSimple, and then it succeeds; the copy is a fresh standalone root with the new id, the same count / first key / seed, the standalone-root size, new backing stores for "
    "elements and digests (origin inequality: nothing shared), fresh element objects, and is stored; the source is not written. "
    "Build: NewArrayFromBatchData packs the stream into leaves that are locally well-formed and closed only at >= target size (loop invariant), nextLevelArraySlabs packs children into well-formed index slabs, all full but the last and within "
    "the size limit, and the root leaf gets the root prefix (exit clause); ByteSliceToByteArray takes the single-slab path only when the real accumulated size fits (call-site pre-condition of newArrayWithElements).",
    A_TREE + "nextLevelMapSlabs is verified like its array counterpart; of NewMapFromBatchData only the interface facts (seed check, result shape) are decided, not the leaf-packing loop; ByteArrayToByteSlice is not under contract; the copy of an array shares no extra-data record with the source; element-level CopyNonRefSimple of caller-supplied storables is an assumed interface contract (answer is a function of the storable); "
    "rebalancing of the last two nodes on each level is checked only through the callee pre-conditions that discharge; count overflow (uint32) is not excluded.",
    "DESIGN.md Status, 9/C17")
add("C14",
    "commit and FastCommit (apply phase): at every return, error or not, processed ids are written and no longer pending, unprocessed ids are still pending with untouched registers, and the overlay view is unchanged for every id; a ledger error is returned categorised; NondeterministicFastCommit: partition loop for any map order, single-slab path, deletion loop and result loop (second view) preserve the view and coherence.",
    "The queue capacities at the concurrency cut are asserted (result queue holds one slot per job, so an encoder never blocks after the apply loop stopped on a fault). A3 atomic register operations; A7 cuts: encoder goroutines / received results are assumed to be (id, EncodeSlab(deltas[id])); the retry-convergence lemma is an induction over these post-conditions, not re-proved by the solver.",
    "DESIGN.md Status, 9/C14")
add("C15",
    "Every PersistentSlabStorage method in the sequential subset against the write-back overlay model (Store, Remove, Retrieve*, commit, FastCommit apply phase, DropDeltas, DropCache, GenerateSlabID, sequential BatchPreload, Deltas, DeltasWithoutTempAddresses, DeltasSizeWithoutTempAddresses, HasUnsavedChanges) with the coherence invariant.",
    "A3, A7, A8; cardinality/size observers are defined by recursion on set insertion (definitional axioms).",
    "DESIGN.md Status, 9/C15")
add("C18",
    "Argument rejections: out-of-range index at leaf and index slabs, absent digest / key below the first key, undefined slab id in Store/Remove, array at maximum count each return the stated category and leave receiver, storage view and touched set unchanged; wrapErrorfAsExternalErrorIfNeeded and the error constructors are proved to categorise; errors passed up by the functions under contract are categorised.",
    "errors.As is modelled on the outermost wrapper (two constructors that rely on Unwrap are trusted); a sweep over all request paths is partial: only functions under contract are covered.",
    "DESIGN.md Status, 9/C18")
add("C19",
    "For arbitrary input bytes: the safety sweep (index / slice bounds, nil, conversions, type assertions, unreachable panics) over the decoders that is discharged per function (claims list): both V1 index-slab decoders completely (with allocation bounded by the input length and a normal-form result), header queries, slab-id decoding, type-info references, and the discharged part of the CBOR-based decoders; safeAdd2/3Uint32 exact. Violations of these safety obligations are replayed on the real code from the solver model.",
    "CBOR stream-decoder calls return unconstrained values of their type (no contract on the library); obligations of the CBOR-based decoders that depend on library guarantees stay unclaimed (listed in evidence).",
    "DESIGN.md Status, 9/C19")
add("C20",
    "Child-reference enumeration is complete and order-preserving for ArrayDataSlab, ArrayMetaDataSlab, MapMetaDataSlab and for map elements (single element: key and value; external group: its slab reference; inline group: its nested list). "
    "CheckStorageHealth: exit-state contract over the checker's own tables, proved with loop invariants for all six loops: on success every recorded reference resolves to an iterated slab (no dangling reference), "
    "every referencing slab is an iterated slab, every visited child has the owner of its parent, every reported root is a parentless iterated slab, the root count matches when requested, and the number of distinct "
    "referenced slabs equals the number of references enumerated (no slab referenced twice; ghost counter on ChildStorables invocations). "
    "One genuine defect found by this check and repaired in /repo (fix: 6e5cc9e, dangling references were not reported).",
    "GetAllChildReferences classifies every reference by the storage view (write set first): resolvable ones resolve, broken ones do not, and the traversal changes no view; counting arguments that need set cardinalities (every slab visited: len(visited) == len(slabs) implies equality) are not decided; the slab iterator is an assumed function-type contract; "
    "'with all slabs loaded' is an input assumption.",
    "DESIGN.md Status, 9/C20, KNOWN_FINDINGS")

add("C11",
    "Stale-handle re-validation: the updater closures installed on a child (Array.setCallbackWithChild#1, OrderedMap.setCallbackWithChild#1) return found=false with nil error and leave the former parent's slabs, root, child-index map and the pending write set untouched when the tracked index entry is gone (array), when the key is absent (map), or when the element found at the tracked index / key is not a slab or slab reference carrying the child's value id; the array child-index map is maintained exactly under insert/remove for any map iteration order.",
    "Array.Set/Remove forget the handle of the detached child (by the value id reported by uninlineStorableIfNeeded, proved for inlined slabs, references and wrappers) and keep the handle of the value just stored, also when the same container is stored again wrapped; "
    "OrderedMap.Set/Remove are not under contract; value-id comparison and the map lookup are abstracted (trusted contracts ValueID.equal, slabIDToValueID, OrderedMap.get); ghost cvid is defined by assumed unfoldings.",
    "DESIGN.md Status, 9/C11")
