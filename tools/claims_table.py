# -*- python -*-  (exec'd by gen_manifest.py)
not_applicable = {
 "C16": "data-race freedom and schedule independence quantify over goroutine interleavings; sequential function contracts (pre/post/invariant) cannot express or decide them, and no concurrent program logic for Go is available in this sandbox (DESIGN.md section 9, C16)",
}
PENDING = "contracts for this property are still under construction in this build; not claimed until its obligations discharge on the unchanged tree (DESIGN.md section 0)"
for p in ["C01","C02","C03","C04","C06","C07","C08","C09","C10","C11","C12","C13","C14","C15","C17","C18","C19","C20"]:
    not_applicable[p] = PENDING

add("C05",
    "Unbounded proof, per function, for a symbolic slab size t in [256,32768] and arbitrary element sizes/counts: setThreshold establishes the threshold invariant; ArrayDataSlab Split/LendToRight/BorrowFromRight/Merge/CanLendToLeft/CanLendToRight/IsFull/IsUnderflow keep header.size = prefix + sum of element sizes, keep both siblings inside [min,max], non-empty, and elements within the inline limit.",
    "Assumes A4 (element ByteSize is a stable function of the element, >= 1) and the frame assumption F. Tree-level lifting is composition, not machine-checked.",
    "DESIGN.md 9/C05")
