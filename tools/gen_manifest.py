#!/usr/bin/env python3
# Generates /verif/MANIFEST.json from the table below (kept in one place so it is always valid and current).
import json, subprocess, os
ROOT = os.path.dirname(os.path.dirname(os.path.abspath(__file__)))
hook_commits = subprocess.run(["git", "-C", "/repo", "log", "--format=%H %s", "--grep=^verif:"], capture_output=True, text=True).stdout.strip().splitlines()

TECH = "contract-based deductive verification: weakest-precondition VCs generated from /repo's typed AST (own generator govc), contracts in //@ comment files behind build tag verif, discharged by z3 5.1 / z3 4.8 / cvc5"
NOTE_COMMON = ("Trusted: the VC generator (/verif/engine), go/types, the three SMT solvers, the assumed contracts of library and caller-supplied "
               "functions listed per run in evidence (trusted_base / assumptions). Integers are mathematical with a discharged no-wrap obligation per operation. ")

claimed = {
 # id: (level text, note, design_ref)
}
def add(pid, text, note, ref):
    claimed[pid] = (text, NOTE_COMMON + note, ref)

exec(open(os.path.join(ROOT, "tools", "claims_table.py")).read())

checks = []
for pid in sorted(claimed):
    text, note, ref = claimed[pid]
    checks.append({
        "property_id": pid,
        "quick_cmd": f"./check.sh {pid} quick",
        "thorough_cmd": f"./check.sh {pid} thorough",
        "evidence_file": f"/verif/evidence/{pid}.json",
        "replay_cmd_template": "./replay.sh {path}",
        "engine": "govc",
        "level_claimed": {"category": "proof", "text": text, "design_ref": ref},
        "level_note": note,
        "technique": TECH,
    })
na = [{"property_id": p, "reason": r} for p, r in sorted(not_applicable.items()) if p not in claimed]
m = {
 "version": 1,
 "setup_cmd": "sh ./setup.sh",
 "hooks": {
   "guard": "verif",
   "enable": "contracts are comment-only files /repo/verif_contracts_*.go with //go:build verif; the verifier loads /repo with -tags verif; no executable code is added",
   "baseline_off_cmd": "cd /repo && go test -mod=mod -vet=off -count=1 -timeout 25m ./...",
   "source_commits": [l.split()[0] for l in hook_commits],
   "add_only": True,
 },
 "engines": [{"name": "govc", "path": "/verif/engine", "serves_properties": sorted(claimed), "kind_free_text": "self-written deductive verifier for Go: contract parser, symbolic executor over go/ast+go/types producing SMT-LIB verification conditions per contract clause, solver portfolio, claimed-set and evidence bookkeeping"}],
 "checks": checks,
 "notes": "See DESIGN.md. Each check regenerates every verification condition from /repo's current working tree. A VIOLATION is a claimed obligation (claims/<id>.json, fixed at claim time on the unchanged tree) that is no longer discharged.",
 "not_applicable": na,
}
json.dump(m, open(os.path.join(ROOT, "MANIFEST.json"), "w"), indent=1)
print("MANIFEST.json written:", len(checks), "checks,", len(na), "not applicable")
