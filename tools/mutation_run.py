#!/usr/bin/env python3
# Mutation run: first-order mutants of /repo's non-test sources (tools/mutgen), each applied in a scratch worktree, built, and handed to
# `govc mutcheck` (re-verifies the claimed clauses of the function that contains the change, or of the functions that inline it).
# Output: one JSON line per mutant. A surviving mutant is not necessarily a property violation (many are equivalent or irrelevant to
# the listed properties); the list is used to find code whose contracts are too weak.
# usage: mutation_run.py -o out.jsonl [-j N] [-cover cover.out] [-uncovered-only] [-per-func K] [-files a.go,b.go] [-funcs F,G]
import argparse, json, os, random, subprocess, sys, threading, queue, glob
ap = argparse.ArgumentParser()
ap.add_argument('-o', required=True); ap.add_argument('-j', type=int, default=3)
ap.add_argument('-cover'); ap.add_argument('-uncovered-only', action='store_true'); ap.add_argument('-covered-only', action='store_true')
ap.add_argument('-per-func', type=int, default=0); ap.add_argument('-files'); ap.add_argument('-funcs')
ap.add_argument('-root', default='/verif'); ap.add_argument('-govc', default='/verif/bin/govc'); ap.add_argument('-mutgen', default='/tmp/mutgen')
ap.add_argument('-ops'); ap.add_argument('-seed', type=int, default=1)
a = ap.parse_args()
ENV = dict(os.environ)
REPO = '/repo'
# sources are read from a pristine worktree of HEAD, never from /repo's working tree (which may carry a seed patch under test)
BASE = '/tmp/mutwt_base'
subprocess.run(['git', '-C', REPO, 'worktree', 'remove', '--force', BASE], capture_output=True)
subprocess.run(['git', '-C', REPO, 'worktree', 'add', '--detach', BASE, 'HEAD'], capture_output=True)
files = a.files.split(',') if a.files else sorted(os.path.basename(f) for f in glob.glob(BASE + '/*.go')
        if not f.endswith('_test.go') and 'verif_' not in f and os.path.basename(f) not in ('doc.go',))
cov = {}
if a.cover:
    for l in open(a.cover):
        if l.startswith('mode:'): continue
        loc, n, cnt = l.rsplit(' ', 2)
        f, rng = loc.split(':'); f = os.path.basename(f)
        s, e = rng.split(','); sl = int(s.split('.')[0]); el = int(e.split('.')[0])
        for ln in range(sl, el + 1):
            cov[(f, ln)] = max(cov.get((f, ln), 0), int(cnt))
done = set()
if os.path.exists(a.o):
    for l in open(a.o):
        r = json.loads(l); done.add((r['file'], r['id']))
rnd = random.Random(a.seed)
todo = []
for f in files:
    ms = json.loads(subprocess.run([a.mutgen, '-file', os.path.join(BASE, f), '-list'], capture_output=True, text=True).stdout or '[]') or []
    byf = {}
    for m in ms:
        m['file'] = f
        m['covered'] = cov.get((f, m['line']), -1)
        if a.uncovered_only and m['covered'] != 0: continue
        if a.covered_only and m['covered'] <= 0: continue
        if a.funcs and m['func'] not in a.funcs.split(','): continue
        if a.ops and m['op'] not in a.ops.split(','): continue
        byf.setdefault(m['func'], []).append(m)
    for fn, l in byf.items():
        if a.per_func and len(l) > a.per_func: l = rnd.sample(l, a.per_func)
        todo += [m for m in l if (f, m['id']) not in done]
print(len(todo), 'mutants to run', file=sys.stderr)
q = queue.Queue()
for m in todo: q.put(m)
lock = threading.Lock()
out = open(a.o, 'a')
def worker(i):
    wt = '/tmp/mutwt_%d' % i
    subprocess.run(['git', '-C', REPO, 'worktree', 'remove', '--force', wt], capture_output=True)
    subprocess.run(['git', '-C', REPO, 'worktree', 'add', '--detach', wt, 'HEAD'], capture_output=True)
    env = dict(ENV, GOVC_REPO=wt, GOVC_ROOT=a.root, GOCACHE='/tmp/mutcache_%d' % i)
    while True:
        try: m = q.get_nowait()
        except queue.Empty: break
        p = os.path.join(wt, m['file'])
        subprocess.run([a.mutgen, '-file', os.path.join(BASE, m['file']), '-id', str(m['id']), '-o', p])
        r = subprocess.run(['go', 'build', '.'], cwd=wt, capture_output=True, text=True, env=env)
        if r.returncode != 0:
            m['result'] = 'nocompile'
        else:
            try:
                r = subprocess.run([a.govc, 'mutcheck', '-f', m['func']], capture_output=True, text=True, env=env, timeout=900)
                lines = [l for l in r.stdout.split('\n') if l.startswith('MUT ')]
                caught = [l[11:] for l in lines if l.startswith('MUT caught ')]
                if any(l.startswith('MUT no-contract') for l in lines): m['result'] = 'no-contract'
                elif any(l.startswith('MUT load-error') for l in lines): m['result'] = 'caught'; caught = ['load-error']
                elif caught: m['result'] = 'caught'
                elif any(l.startswith('MUT keys=') for l in lines): m['result'] = 'survived'
                else: m['result'] = 'error'; m['err'] = (r.stdout + r.stderr)[-400:]
                m['clauses'] = caught[:6]; m['ncaught'] = len(caught)
            except subprocess.TimeoutExpired:
                m['result'] = 'timeout'
        subprocess.run(['git', '-C', wt, 'checkout', '--', m['file']], capture_output=True)
        with lock:
            out.write(json.dumps(m) + '\n'); out.flush()
    subprocess.run(['git', '-C', REPO, 'worktree', 'remove', '--force', wt], capture_output=True)
    subprocess.run(['rm', '-rf', '/tmp/mutcache_%d' % i])
ts = [threading.Thread(target=worker, args=(i,)) for i in range(a.j)]
for t in ts: t.start()
for t in ts: t.join()
subprocess.run(['git', '-C', REPO, 'worktree', 'remove', '--force', BASE], capture_output=True)
