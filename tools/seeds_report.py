#!/usr/bin/env python3
# Runs every confirmed seed under /verif/seeded against the quick check of its property (applies the patch to /repo, runs the check,
# reverts), and writes seeded/<id>/meta.json and seeded/README.md. Usage: seeds_report.py [seed-id ...]
import json, os, subprocess, sys
ROOT='/verif/seeded'
needs=json.load(open('/verif/tools/seed_needs.json'))
ids=sys.argv[1:] or sorted(d for d in os.listdir(ROOT) if os.path.isdir(os.path.join(ROOT,d)) and not d.startswith('_'))
rows=[]
for sid in ids:
    d=os.path.join(ROOT,sid)
    info=needs.get(sid,{})
    prop=info.get('property', sid.split('_')[0])
    conf=open(os.path.join(d,'confirm.log')).read().strip().split('\n')[-1] if os.path.exists(os.path.join(d,'confirm.log')) else ''
    props=[prop]+info.get('also',[])
    r=subprocess.run(['/verif/tools/run_seed.sh', os.path.join(d,'patch.diff')]+props,capture_output=True,text=True)
    out=r.stdout.strip()
    # caught = the quick check of the seed's OWN property reports a violation (the checks of other properties are informative only)
    caught=any((l.strip().startswith(prop+':') and 'violations=0' not in l) for l in out.split('\n'))
    files=[l[6:] for l in open(os.path.join(d,'patch.diff')) if l.startswith('+++ b/')]
    meta={'seed':sid,'breaks_property':prop,'files':files,'change':info.get('change',''),'needs_to_manifest':info.get('needs',''),
          'confirmation':{'how':'tools/confirm_seed.sh in a scratch worktree of /repo at the original snapshot: demo on original (must pass), build with change, demo with change (must fail), existing suite with change (must pass)','result':conf},
          'check_run':{'cmd':'tools/run_seed.sh seeded/%s/patch.diff %s'%(sid,' '.join(props)),'output':out,'caught':caught}}
    json.dump(meta,open(os.path.join(d,'meta.json'),'w'),indent=1)
    rows.append((sid,prop,'yes' if 'CONFIRMED=yes' in conf else 'NO','caught' if caught else 'MISSED',next((l.strip()[:200] for l in out.split('\n') if 'violations=' in l and 'violations=0' not in l),'') if caught else ''))
    print(sid,prop,rows[-1][2],rows[-1][3])
# rows of seeds that were not re-run come from their stored meta.json
done={r[0] for r in rows}
for sid in sorted(d for d in os.listdir(ROOT) if os.path.isdir(os.path.join(ROOT,d)) and not d.startswith('_')):
    if sid in done: continue
    mp=os.path.join(ROOT,sid,'meta.json')
    if not os.path.exists(mp): continue
    m=json.load(open(mp)); out=m['check_run']['output']; caught=m['check_run']['caught']
    rows.append((sid,m['breaks_property'],'yes' if 'CONFIRMED=yes' in m['confirmation']['result'] else 'NO','caught' if caught else 'MISSED',
                 next((l.strip()[:200] for l in out.split('\n') if 'violations=' in l and 'violations=0' not in l),'') if caught else ''))
rows.sort()
with open(os.path.join(ROOT,'README.md'),'w') as f:
    f.write('# Seeded property-breaking changes (from sub-agents that saw only the property text)\n\n| seed | property | confirmed | quick check | first failing claimed clause |\n|---|---|---|---|---|\n')
    for r in rows: f.write('| %s | %s | %s | %s | %s |\n'%r)
