#!/bin/sh
# usage: confirm_seed.sh <seed-id> <diff> <demo_test.go> <property>
# Confirms in a scratch worktree (outside /repo and /verif): demo passes on the original, change compiles, demo fails with the
# change, and the unchanged existing suite passes with the change. Writes /verif/seeded/<seed-id>/{patch.diff,demo_test.go,confirm.log}.
set -u
ID=$1; DIFF=$2; DEMO=$3; PROP=$4
. /verif/env.sh
OUT=/verif/seeded/$ID
mkdir -p $OUT
cp $DIFF $OUT/patch.diff
cp $DEMO $OUT/demo_test.go
WT=$(mktemp -d /tmp/confirm_XXXXXX)
LOG=$OUT/confirm.log
: > $LOG
git -C /repo worktree add -q --detach $WT HEAD >>$LOG 2>&1
cd $WT
DEMONAME=zz_seed_demo_test.go
cp $DEMO $WT/$DEMONAME
TESTS=$(grep -o '^func Test[A-Za-z0-9_]*' $DEMONAME | sed 's/func //' | tr '\n' '|' | sed 's/|$//')
echo "== demo on original (must pass): go test -run '^($TESTS)\$' ." >>$LOG
go test -vet=off -count=1 -timeout 10m -run "^($TESTS)\$" . >>$LOG 2>&1; R1=$?
echo "exit=$R1" >>$LOG
git apply $OUT/patch.diff >>$LOG 2>&1; RA=$?
echo "== build with change" >>$LOG
go build ./... >>$LOG 2>&1; RB=$?
echo "== demo with change (must fail)" >>$LOG
go test -vet=off -count=1 -timeout 10m -run "^($TESTS)\$" . >>$LOG 2>&1; R2=$?
echo "exit=$R2" >>$LOG
rm -f $WT/$DEMONAME
echo "== existing suite with change (must pass): go test -vet=off -count=1 ./..." >>$LOG
go test -vet=off -count=1 -timeout 25m ./... >>$LOG 2>&1; R3=$?
echo "exit=$R3" >>$LOG
cd /
git -C /repo worktree remove --force $WT >/dev/null 2>&1
rm -rf $WT
OK=no
if [ $R1 -eq 0 ] && [ $RA -eq 0 ] && [ $RB -eq 0 ] && [ $R2 -ne 0 ] && [ $R3 -eq 0 ]; then OK=yes; fi
echo "CONFIRMED=$OK demo_orig=$R1 apply=$RA build=$RB demo_changed=$R2 suite_changed=$R3" >>$LOG
echo "$ID $PROP CONFIRMED=$OK"
