#!/usr/bin/env python3
# Prints DESIGN.md table rows for the seeds of a round (suffix, e.g. _seed3) from seeded/<id>/meta.json.
# History column: whether any clause that fails for the seed was already claimed at the given earlier commit of /verif.
# usage: seeds_table.py _seed4 <verif commit before the round's strengthening>
import json, os, re, subprocess, sys
suffix, base = sys.argv[1], sys.argv[2]
needs = json.load(open('/verif/tools/seed_needs.json'))
def norm(x): return re.sub(r'[^A-Za-z0-9]', '', x)
for sid in sorted(d for d in os.listdir('/verif/seeded') if d.endswith(suffix)):
    mp = '/verif/seeded/%s/meta.json' % sid
    if not os.path.exists(mp): continue
    m = json.load(open(mp)); prop = m['breaks_property']; out = m['check_run']['output']
    line = next((l for l in out.split('\n') if l.strip().startswith(prop + ':')), '')
    files = [re.sub(r'\.json$', '', f) for f in re.findall(r'%s/(\S+)' % prop, line)]
    cl = json.load(open('/verif/claims/%s.json' % prop))['clauses']
    names = []
    for f in files:
        c = [x for x in cl if norm(x) == norm(f)]
        names.append(c[0] if c else f)
    old = subprocess.run(['git', '-C', '/verif', 'show', '%s:claims/%s.json' % (base, prop)], capture_output=True, text=True).stdout
    was = [n for n in names if ('"%s"' % n) in old]
    if not names:
        caught, hist = '**missed**', ''
    else:
        caught = '%s `%s`' % (prop, (was or names)[0]) + (' (+%d more)' % (len(names) - 1) if len(names) > 1 else '')
        hist = 'caught by the claims as they were before this round' if was else 'first missed (no failing clause was claimed before this round); caught after the clause was added'
    print('| %s | %s | %s | %s |' % (sid, needs.get(sid, {}).get('change', ''), caught, hist))
