#!/bin/sh
# usage: run_seed.sh <patch.diff> <prop> [<prop>...] : apply to /repo, run quick checks, revert. Prints per-property verdict.
PATCH=$1; shift
cd /repo || exit 2
if ! git diff --quiet -- . ':!verif_contracts_*'; then echo "repo has uncommitted source changes"; exit 2; fi
git apply "$PATCH" || { echo "patch does not apply"; exit 2; }
for p in "$@"; do
  cp /verif/evidence/$p.json /tmp/evidence_$p.bak 2>/dev/null
  out=$(cd /verif && ./check.sh $p 2>&1)
  cp /tmp/evidence_$p.bak /verif/evidence/$p.json 2>/dev/null
  v=$(echo "$out" | grep -c '^VIOLATION')
  echo "  $p: violations=$v $(echo "$out" | grep '^VIOLATION' | sed 's/.*replay=\/verif\/replays\///' | tr '\n' ' ' | cut -c1-3000)"
done
git checkout -q -- $(git diff --name-only -- . ':!verif_contracts_*')
