#!/bin/sh
# usage: run_harmless.sh [-dev <worktree> <verif copy>] [H01 ...]
# Applies each behaviour-preserving patch of /verif/harmless to /repo (or to a scratch worktree with a scratch copy of /verif),
# runs the quick checks of the properties it touches, reverts. Every check must exit 0: a VIOLATION here is a false alarm of the checker.
REPO=/repo; ROOT=/verif
if [ "$1" = "-dev" ]; then REPO=$2; ROOT=$3; shift 3; fi
cd "$REPO" || exit 2
. /verif/env.sh >/dev/null 2>&1
if ! git diff --quiet -- . ':!verif_contracts_*'; then echo "repo has uncommitted source changes"; exit 2; fi
ids="$*"; [ -n "$ids" ] || ids=$(cd /verif/harmless && ls H*.diff | sed 's/.diff//')
rc=0
for h in $ids; do
  props=$(python3 -c "import json;print(' '.join(json.load(open('/verif/harmless/index.json'))['$h']['properties']))")
  git apply /verif/harmless/$h.diff || { echo "$h: patch does not apply"; rc=2; continue; }
  for p in $props; do
    [ "$ROOT" = /verif ] && cp /verif/evidence/$p.json /tmp/evidence_h_$p.bak 2>/dev/null
    out=$(GOVC_ROOT=$ROOT GOVC_REPO=$REPO $ROOT/bin/govc check -p $p -tier quick 2>&1); e=$?
    [ "$ROOT" = /verif ] && cp /tmp/evidence_h_$p.bak /verif/evidence/$p.json 2>/dev/null && rm -f /tmp/evidence_h_$p.bak
    echo "$h $p exit=$e $(echo "$out" | grep '^VIOLATION' | sed 's/.*replay=[^ ]*replays\///' | tr '\n' ' ' | cut -c1-400)"
    [ $e -ne 0 ] && rc=1
  done
  git checkout -q -- $(git diff --name-only -- . ':!verif_contracts_*')
done
exit $rc
