#!/bin/sh
# usage: check.sh <property> [quick|thorough]
cd "$(dirname "$0")"
. ./env.sh
[ -x bin/govc ] || sh ./setup.sh >/dev/null
exec bin/govc check -p "$1" -tier "${2:-${VERIF_TIER:-quick}}"
